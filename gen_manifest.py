#!/usr/bin/env python3
"""Regenerates MANIFEST.json from the harness table (harnesses.py) so the two never drift."""
import json
import os
import sys

sys.dont_write_bytecode = True
HERE = os.path.dirname(os.path.abspath(__file__))
sys.path.insert(0, HERE)
import harnesses as HT  # noqa

props = [json.loads(l) for l in open(os.path.join(HERE, "properties.jsonl"))]
checks = []
na = []
for p in props:
    pid = p["id"]
    hs = [h for h in HT.ALL if (h["prop"] == pid or pid in h["also"]) and h["kind"] == "required"]
    meta = HT.PROPS.get(pid)
    if not hs or not meta or meta.get("not_applicable"):
        reason = (meta or {}).get("not_applicable") or HT.NOT_YET.get(pid, "check not built yet")
        na.append({"property_id": pid, "reason": reason})
        continue
    checks.append({
        "property_id": pid,
        "quick_cmd": f"./check {pid} --tier quick",
        "thorough_cmd": f"./check {pid} --tier thorough",
        "evidence_file": f"/verif/evidence/{pid}.json",
        "replay_cmd_template": f"./check {pid} --replay {{path}}",
        "engine": "kani-cbmc",
        "level_claimed": {
            "category": "model_checking",
            "text": meta["level_text"],
            "design_ref": meta.get("design_ref", "DESIGN.md section 5, " + pid),
        },
        "level_note": meta["level_note"],
        "technique": meta.get("technique", "bounded model checking of the compiled Rust code (Kani 0.68 -> CBMC 6.11 -> "
                                           "CaDiCaL) over symbolic inputs; counterexamples replayed natively"),
    })

man = {
    "version": 1,
    "setup_cmd": "./check --setup",
    "hooks": {
        "guard": "scpi_verif",
        "enable": "no source hook is needed: the harness crate /verif/harness reaches everything through public API and "
                  "Kani stubs; checks build /repo's working tree through path dependencies",
        "baseline_off_cmd": "cd /repo && cargo test --workspace --no-fail-fast --offline",
        "source_commits": [],
        "add_only": True,
    },
    "engines": [{
        "name": "kani-cbmc",
        "path": "/verif/check",
        "serves_properties": [c["property_id"] for c in checks],
        "kind_free_text": "solver-based checking of the real code: Kani proof harnesses in /verif/harness (path "
                          "dependencies on /repo) compiled from /repo's working tree on every run, decided by CBMC+CaDiCaL "
                          "with unwinding assertions; solver counterexamples are replayed natively (dev and release) "
                          "against the unstubbed crates before a VIOLATION is printed",
    }],
    "checks": checks,
    "not_applicable": na,
    "notes": "exit 0 held within the stated bounds; exit 1 reproduced violation; exit 2 inconclusive (cap, memory, "
             "unwinding assertion, vacuity witness, or a counterexample that does not replay). known_findings.json is "
             "read-only at run time.",
}
json.dump(man, open(os.path.join(HERE, "MANIFEST.json"), "w"), indent=1)
print(f"MANIFEST.json: {len(checks)} claimed, {len(na)} not applicable / not yet built")
