//! Reference parsers for SCPI-99 8.3.2 channel lists and 8.3.3 numeric lists, as ONE iteration
//! step from a state (remaining bytes, first-entry flag).  `Any` wherever the property (C19) lists
//! no requirement.

use super::lexer::{is_digit, is_ws};

#[derive(Clone, Copy, PartialEq, Eq, Debug)]
pub enum EKind {
    Spec,
    Range,
    Path,
    Numeric,
    NumericRange,
}

#[derive(Clone, Copy, PartialEq, Eq, Debug)]
pub struct Entry {
    pub kind: EKind,
    pub a: usize,
    pub b: usize,
    pub dim: usize,
    pub a2: usize,
    pub b2: usize,
    pub dim2: usize,
    pub consumed: usize,
}

#[derive(Clone, Copy, PartialEq, Eq, Debug)]
pub enum LExpect {
    End,
    Entry(Entry),
    Err,
    Any,
}

fn is_sign(b: u8) -> bool {
    b == b'+' || b == b'-'
}

/// run of channel-spec characters starting at i: returns (end, dimension, well_formed)
/// well-formed: [+-]?digit+ { '!' [+-]?digit+ }
pub fn spec_run(buf: &[u8], i: usize) -> (usize, usize, bool) {
    let mut j = i;
    let mut dim = 1;
    while j < buf.len() && (is_digit(buf[j]) || is_sign(buf[j]) || buf[j] == b'!') {
        if buf[j] == b'!' {
            dim += 1;
        }
        j += 1;
    }
    // well-formedness
    let mut ok = j > i;
    let mut k = i;
    while ok && k < j {
        if is_sign(buf[k]) {
            k += 1;
        }
        let d0 = k;
        while k < j && is_digit(buf[k]) {
            k += 1;
        }
        if k == d0 {
            ok = false;
            break;
        }
        if k < j {
            if buf[k] == b'!' {
                k += 1;
                if k == j {
                    ok = false;
                }
            } else {
                ok = false;
            }
        }
    }
    (j, dim, ok)
}

/// value of the k-th element of a well-formed spec text
pub fn spec_value(spec: &[u8], k: usize) -> i128 {
    let mut idx = 0;
    let mut i = 0;
    while idx < k {
        while i < spec.len() && spec[i] != b'!' {
            i += 1;
        }
        i += 1;
        idx += 1;
    }
    let mut neg = false;
    if i < spec.len() && is_sign(spec[i]) {
        neg = spec[i] == b'-';
        i += 1;
    }
    let mut v: i128 = 0;
    while i < spec.len() && is_digit(spec[i]) {
        v = v * 10 + (spec[i] - b'0') as i128;
        i += 1;
    }
    if neg {
        -v
    } else {
        v
    }
}

pub fn ref_chan_step(buf: &[u8], first: bool) -> LExpect {
    let n = buf.len();
    if n == 0 {
        return LExpect::End;
    }
    let mut i = 0;
    if buf[0] == b',' {
        if first {
            return LExpect::Err; // leading comma
        }
        i = 1;
        if i == n {
            return LExpect::Any; // trailing comma
        }
        if buf[i] == b',' {
            return LExpect::Err; // doubled comma
        }
    }
    let x = buf[i];
    if is_digit(x) || is_sign(x) {
        let (e1, d1, ok1) = spec_run(buf, i);
        if e1 < n && buf[e1] == b':' {
            let (e2, d2, ok2) = spec_run(buf, e1 + 1);
            if e2 == e1 + 1 {
                return LExpect::Any; // "1:" - malformed, not one of the listed corruptions
            }
            if d1 != d2 {
                return LExpect::Err; // range ends of different dimension
            }
            if !ok1 || !ok2 {
                return LExpect::Any;
            }
            return LExpect::Entry(Entry { kind: EKind::Range, a: i, b: e1, dim: d1, a2: e1 + 1, b2: e2, dim2: d2, consumed: e2 });
        }
        if !ok1 {
            return LExpect::Any;
        }
        return LExpect::Entry(Entry { kind: EKind::Spec, a: i, b: e1, dim: d1, a2: 0, b2: 0, dim2: 0, consumed: e1 });
    }
    if x == b'"' || x == b'\'' {
        let mut j = i + 1;
        loop {
            if j >= n {
                return LExpect::Any; // unterminated path name
            }
            let c = buf[j];
            if c == x {
                if j + 1 < n && buf[j + 1] == x {
                    j += 2;
                    continue;
                }
                break;
            }
            if c >= 0x80 {
                return LExpect::Any;
            }
            j += 1;
        }
        if j + 1 < n && buf[j + 1] != b',' {
            return LExpect::Any; // something glued to the closing quote
        }
        return LExpect::Entry(Entry { kind: EKind::Path, a: i + 1, b: j, dim: 0, a2: 0, b2: 0, dim2: 0, consumed: j + 1 });
    }
    if is_ws(x) || x < 0x20 {
        return LExpect::Any;
    }
    // a third range end (':'), or any character foreign to the list syntax
    LExpect::Err
}

/// <NRf> at i: returns end index, or None when no number starts there; Some(usize::MAX) = undecided
fn nrf(buf: &[u8], i: usize) -> Option<usize> {
    let n = buf.len();
    let mut j = i;
    if j < n && is_sign(buf[j]) {
        j += 1;
    }
    let d0 = j;
    while j < n && is_digit(buf[j]) {
        j += 1;
    }
    let mut digits = j - d0;
    if j < n && buf[j] == b'.' {
        j += 1;
        let f0 = j;
        while j < n && is_digit(buf[j]) {
            j += 1;
        }
        digits += j - f0;
    }
    if digits == 0 {
        return None;
    }
    if j < n && (buf[j] == b'E' || buf[j] == b'e') {
        let mut k = j + 1;
        if k < n && is_sign(buf[k]) {
            k += 1;
        }
        let e0 = k;
        while k < n && is_digit(buf[k]) {
            k += 1;
        }
        if k == e0 {
            return Some(usize::MAX);
        }
        j = k;
    }
    Some(j)
}

pub fn ref_num_step(buf: &[u8], first: bool) -> LExpect {
    let n = buf.len();
    if n == 0 {
        return LExpect::End;
    }
    let mut i = 0;
    if buf[0] == b',' {
        if first {
            return LExpect::Err; // leading comma
        }
        i = 1;
        if i == n {
            return LExpect::Any; // trailing comma
        }
        if buf[i] == b',' {
            return LExpect::Err; // doubled comma
        }
    } else if !first {
        if is_ws(buf[0]) || buf[0] < 0x20 {
            return LExpect::Any;
        }
        // after an entry only ',' may follow: a number start is a missing separator, ':' a third
        // range end, anything else a foreign character
        return LExpect::Err;
    }
    let x = buf[i];
    if !(is_digit(x) || is_sign(x) || x == b'.') {
        if is_ws(x) || x < 0x20 {
            return LExpect::Any;
        }
        return LExpect::Err; // foreign character
    }
    let e1 = match nrf(buf, i) {
        None => return LExpect::Any, // a sign or dot without digits
        Some(usize::MAX) => return LExpect::Any,
        Some(e) => e,
    };
    if e1 < n && buf[e1] == b':' {
        let e2 = match nrf(buf, e1 + 1) {
            None => return LExpect::Any,
            Some(usize::MAX) => return LExpect::Any,
            Some(e) => e,
        };
        return LExpect::Entry(Entry { kind: EKind::NumericRange, a: i, b: e1, dim: 0, a2: e1 + 1, b2: e2, dim2: 0, consumed: e2 });
    }
    LExpect::Entry(Entry { kind: EKind::Numeric, a: i, b: e1, dim: 0, a2: 0, b2: 0, dim2: 0, consumed: e1 })
}

#[cfg(test)]
mod tests {
    use super::*;
    #[test]
    fn repo_inputs() {
        // scpi/src/parser/expression/channel_list.rs test: @1!12,3!4:5!6,'POTATO'
        let b = b"1!12,3!4:5!6,'POTATO'";
        match ref_chan_step(b, true) {
            LExpect::Entry(e) => assert_eq!((e.kind, e.a, e.b, e.dim, e.consumed), (EKind::Spec, 0, 4, 2, 4)),
            o => panic!("{:?}", o),
        }
        match ref_chan_step(&b[4..], false) {
            LExpect::Entry(e) => assert_eq!((e.kind, e.a, e.b, e.a2, e.b2, e.dim, e.consumed), (EKind::Range, 1, 4, 5, 8, 2, 8)),
            o => panic!("{:?}", o),
        }
        match ref_chan_step(&b[12..], false) {
            LExpect::Entry(e) => assert_eq!((e.kind, e.a, e.b), (EKind::Path, 2, 8)),
            o => panic!("{:?}", o),
        }
        assert_eq!(ref_chan_step(b",1", true), LExpect::Err);
        assert_eq!(ref_chan_step(b",,1", false), LExpect::Err);
        assert_eq!(ref_chan_step(b"1!2:3", true), LExpect::Err);
        assert_eq!(ref_chan_step(b":3", false), LExpect::Err);
        assert_eq!(spec_value(b"1!-12!+3", 1), -12);
        // numeric_list.rs tests
        match ref_num_step(b"3.1415,1.1:3.9e6", true) {
            LExpect::Entry(e) => assert_eq!((e.kind, e.a, e.b), (EKind::Numeric, 0, 6)),
            o => panic!("{:?}", o),
        }
        match ref_num_step(b",1.1:3.9e6", false) {
            LExpect::Entry(e) => assert_eq!((e.kind, e.a, e.b, e.a2, e.b2), (EKind::NumericRange, 1, 4, 5, 10)),
            o => panic!("{:?}", o),
        }
        assert_eq!(ref_num_step(b",1,2:5", true), LExpect::Err);
        assert_eq!(ref_num_step(b",,2:5", false), LExpect::Err);
        assert_eq!(ref_num_step(b"-2", false), LExpect::Err);
        assert_eq!(ref_num_step(b":5", false), LExpect::Err);
    }
}
