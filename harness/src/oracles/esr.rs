//! ESR class table of IEEE 488.2 / SCPI-99 (21.8): error/event number -> Standard Event Status bit.

pub fn esr_bit(code: i16) -> u8 {
    let c = code as i32;
    if c > 0 {
        return 0x08; // device-specific (positive numbers)
    }
    let century = (-c) / 100; // 0 for 0..-99, 1 for -100..-199, ...
    match century {
        0 => 0x00,
        1 => 0x20, // command error, bit 5
        2 => 0x10, // execution error, bit 4
        3 => 0x08, // device-specific, bit 3
        4 => 0x04, // query error, bit 2
        5 => 0x80, // power on, bit 7
        6 => 0x40, // user request, bit 6
        7 => 0x02, // request control, bit 1
        8 => 0x01, // operation complete, bit 0
        _ => 0x08, // unclassified
    }
}

pub fn is_command_error(code: i16) -> bool {
    code <= -100 && code >= -199
}

pub fn is_execution_error(code: i16) -> bool {
    code <= -200 && code >= -299
}
