//! Reference lexer STEP written from IEEE 488.2-1992 section 7 (index based, no iterators).
//!
//! `ref_step(buf, in_header, in_common)` says what one step of a 488.2 lexer must do when the
//! remaining input is `buf` and the lexer is inside / outside a program header:
//!   * `Tok`    – exactly this element, with exactly this payload byte range and cursor,
//!   * `End`    – end of message,
//!   * `Reject` – the element violates its 488.2 syntax: a command error is required,
//!   * `Any`    – the standard / the property text does not decide (no requirement).
//! `Any` is returned generously: everything the property (C04) does not list explicitly and
//! 488.2 leaves open is `Any`, so that the differential never demands more than the property.

#[derive(Clone, Copy, PartialEq, Eq, Debug)]
pub enum Kind {
    Colon,
    Query,
    Semi,
    HeaderSep,
    Comma,
    Mnemonic,
    CharData,
    Decimal,
    DecimalSuffix,
    NonDecimal,
    Str,
    Block,
    Expr,
}

#[derive(Clone, Copy, PartialEq, Eq, Debug)]
pub struct Tok {
    pub kind: Kind,
    /// payload byte range [a, b) of the input (mnemonic text, number text, string content ...)
    pub a: usize,
    pub b: usize,
    /// second payload range (the suffix of a suffixed number)
    pub a2: usize,
    pub b2: usize,
    /// value of a non-decimal literal
    pub value: u64,
    /// cursor after the step
    pub consumed: usize,
    /// the cursor is only required when this is false (trailing white space that runs into a
    /// terminator is skipped by some lexers and left by others)
    pub cursor_any: bool,
    /// lexer is inside a program header after the step
    pub in_header: bool,
    /// .. and that header is a common command header (only meaningful when in_header)
    pub in_common: bool,
}

#[derive(Clone, Copy, PartialEq, Eq, Debug)]
pub enum Expect {
    End,
    Tok(Tok),
    Reject,
    Any,
}

pub fn is_alpha(b: u8) -> bool {
    (b >= b'a' && b <= b'z') || (b >= b'A' && b <= b'Z')
}
pub fn is_digit(b: u8) -> bool {
    b >= b'0' && b <= b'9'
}
fn is_word(b: u8) -> bool {
    is_alpha(b) || is_digit(b) || b == b'_'
}
/// white space every reading of 488.2 and the library agree on (NL is the terminator, the other
/// control characters are white space for 488.2 but not for the library: no requirement there)
pub fn is_ws(b: u8) -> bool {
    b == b' ' || b == b'\t' || b == b'\r' || b == 0x0c
}
fn is_ctrl(b: u8) -> bool {
    b < 0x20 || b == 0x7f
}

fn ws_end(buf: &[u8], mut i: usize) -> usize {
    while i < buf.len() && is_ws(buf[i]) {
        i += 1;
    }
    i
}

fn tok(kind: Kind, a: usize, b: usize, consumed: usize, in_header: bool, in_common: bool) -> Tok {
    Tok { kind, a, b, a2: 0, b2: 0, value: 0, consumed, cursor_any: false, in_header, in_common }
}

/// After a data element: optional white space, then `,` `;` NL or the end must follow.
/// Returns (ok, cursor, cursor_any).
fn follower(buf: &[u8], end: usize) -> (u8, usize, bool) {
    let j = ws_end(buf, end);
    if j >= buf.len() {
        return (1, j, false);
    }
    let c = buf[j];
    if c == b',' || c == b';' {
        (1, j, false)
    } else if c == b'\n' {
        if j + 1 < buf.len() {
            return (2, j, true); // NL followed by more input: a new message starts there - undecided
        }
        // white space running into the terminator: cursor may rest before or after it
        (1, j, true)
    } else if is_ctrl(c) {
        (2, j, true) // 488.2 white space the library does not know: undecided
    } else {
        (0, j, false) // missing separator after a datum
    }
}

fn finish_data(buf: &[u8], mut t: Tok, end: usize) -> Expect {
    let (ok, cur, any) = follower(buf, end);
    if ok == 0 {
        return Expect::Reject;
    }
    if ok == 2 {
        return Expect::Any;
    }
    t.consumed = cur;
    t.cursor_any = any;
    Expect::Tok(t)
}

fn radix_digit(b: u8, radix: u32) -> Option<u32> {
    let v = if is_digit(b) {
        (b - b'0') as u32
    } else if b >= b'a' && b <= b'f' {
        (b - b'a') as u32 + 10
    } else if b >= b'A' && b <= b'F' {
        (b - b'A') as u32 + 10
    } else {
        return None;
    };
    if v < radix {
        Some(v)
    } else {
        None
    }
}

/// 488.2 7.7.3 suffix shape: ['/'] unit [exp] { ('.'|'/') unit [exp] }, unit = letters, exp = ['-'] digit
fn suffix_shape_ok(s: &[u8]) -> bool {
    let mut i = 0;
    if i < s.len() && s[i] == b'/' {
        i += 1;
    }
    loop {
        let st = i;
        while i < s.len() && is_alpha(s[i]) {
            i += 1;
        }
        if i == st {
            return false;
        }
        if i < s.len() && s[i] == b'-' {
            i += 1;
            if !(i < s.len() && is_digit(s[i])) {
                return false;
            }
            i += 1;
        } else if i < s.len() && is_digit(s[i]) {
            i += 1;
        }
        if i == s.len() {
            return true;
        }
        if s[i] == b'.' || s[i] == b'/' {
            i += 1;
        } else {
            return false;
        }
    }
}

pub fn ref_step(buf: &[u8], in_header: bool, in_common: bool) -> Expect {
    let n = buf.len();
    if n == 0 {
        return Expect::End;
    }
    let x = buf[0];
    // ---- elements valid inside and outside a header
    if x == b';' {
        let j = ws_end(buf, 1);
        if j < n && (buf[j] == b'\n' || is_ctrl(buf[j])) {
            return Expect::Any;
        }
        return Expect::Tok(tok(Kind::Semi, 0, 1, j, true, false));
    }
    if x == b'\n' {
        return if n == 1 { Expect::End } else { Expect::Any };
    }
    if is_ws(x) {
        if in_header {
            // leading white space before a header: 488.2 allows it, the element structure of
            // the library has no token for it - undecided here
            return Expect::Any;
        }
        let j = ws_end(buf, 1);
        if j < n && (buf[j] == b'\n' || is_ctrl(buf[j])) {
            return Expect::Any;
        }
        return Expect::Tok(tok(Kind::HeaderSep, 0, j, j, false, in_common));
    }
    if x >= 0x80 {
        return Expect::Reject; // non-ASCII outside block data
    }
    if is_ctrl(x) {
        return Expect::Any;
    }
    if in_header {
        // ---- program header
        if x == b'*' {
            // common command header: '*' + program mnemonic
            if !(n > 1 && is_alpha(buf[1])) {
                return Expect::Any;
            }
            let mut j = 1;
            while j < n && is_word(buf[j]) {
                j += 1;
            }
            let len = j - 1;
            if len > 12 {
                return Expect::Reject;
            }
            if len == 12 {
                return Expect::Any; // the library counts the '*' as one of the 12 characters
            }
            return Expect::Tok(tok(Kind::Mnemonic, 0, j, j, true, true));
        }
        if is_alpha(x) {
            let mut j = 0;
            while j < n && is_word(buf[j]) {
                j += 1;
            }
            if j > 12 {
                return Expect::Reject;
            }
            return Expect::Tok(tok(Kind::Mnemonic, 0, j, j, true, in_common));
        }
        if x == b':' {
            if in_common {
                return Expect::Reject; // no compound header after a common command header
            }
            if n == 1 {
                return Expect::Any;
            }
            if !is_alpha(buf[1]) {
                return Expect::Reject; // misplaced ':'
            }
            return Expect::Tok(tok(Kind::Colon, 0, 1, 1, true, false));
        }
        if x == b'?' {
            if n > 1 {
                let c = buf[1];
                if !(is_ws(c) || c == b';' || c == b'\n') {
                    if is_ctrl(c) {
                        return Expect::Any;
                    }
                    return Expect::Reject; // a query header must be followed by a separator
                }
            }
            return Expect::Tok(tok(Kind::Query, 0, 1, 1, false, in_common));
        }
        if x == b',' {
            return Expect::Reject; // misplaced ','
        }
        if x == b'(' {
            return Expect::Any;
        }
        // data where a header is required (digits, signs, '#', quotes) and other punctuation
        return Expect::Reject;
    }
    // ---- program data
    if x == b',' {
        let j = ws_end(buf, 1);
        if j >= n {
            return Expect::Any; // trailing comma at the very end: left to the parameter layer
        }
        let c = buf[j];
        if c == b'\n' {
            return Expect::Any; // dangling ',' before the terminator: left to the parameter layer (-109)
        }
        if c == b',' || c == b';' {
            return Expect::Reject; // doubled / dangling ','
        }
        if is_ctrl(c) {
            return Expect::Any;
        }
        return Expect::Tok(tok(Kind::Comma, 0, 1, j, false, in_common));
    }
    if x == b':' || x == b'?' {
        return Expect::Reject; // header punctuation inside the data part
    }
    if x == b'*' {
        return Expect::Any; // the library lexes `*XYZ` as a mnemonic anywhere; the dispatcher rejects it
    }
    if is_alpha(x) {
        let mut j = 0;
        while j < n && is_word(buf[j]) {
            j += 1;
        }
        if j > 12 {
            return Expect::Reject;
        }
        return finish_data(buf, tok(Kind::CharData, 0, j, j, false, in_common), j);
    }
    if is_digit(x) || x == b'+' || x == b'-' || x == b'.' {
        // <DECIMAL NUMERIC PROGRAM DATA>  (NRf)
        let mut j = 0;
        if buf[j] == b'+' || buf[j] == b'-' {
            j += 1;
        }
        let d0 = j;
        while j < n && is_digit(buf[j]) {
            j += 1;
        }
        let mut digits = j - d0;
        if j < n && buf[j] == b'.' {
            j += 1;
            let f0 = j;
            while j < n && is_digit(buf[j]) {
                j += 1;
            }
            digits += j - f0;
        }
        if digits == 0 {
            return Expect::Reject; // a numeric element without a digit
        }
        // exponent
        if j < n && (buf[j] == b'E' || buf[j] == b'e') {
            let mut k = j + 1;
            if k < n && (buf[k] == b'+' || buf[k] == b'-') {
                k += 1;
            }
            let e0 = k;
            while k < n && is_digit(buf[k]) {
                k += 1;
            }
            if k == e0 {
                return Expect::Any; // 'E' without digits: exponent error or a suffix starting with E
            }
            j = k;
        }
        let num_end = j;
        let k = ws_end(buf, j);
        if k < n && (is_alpha(buf[k]) || buf[k] == b'/') {
            if k > num_end && (buf[k] == b'E' || buf[k] == b'e') {
                return Expect::Any; // "1 E3": 488.2 allows white space before an exponent
            }
            // <SUFFIX PROGRAM DATA>
            let mut m = k;
            while m < n && (is_alpha(buf[m]) || is_digit(buf[m]) || buf[m] == b'/' || buf[m] == b'.' || buf[m] == b'-') {
                m += 1;
            }
            if m - k > 12 {
                return Expect::Reject;
            }
            if !suffix_shape_ok(&buf[k..m]) {
                return Expect::Any;
            }
            let mut t = tok(Kind::DecimalSuffix, 0, num_end, m, false, in_common);
            t.a2 = k;
            t.b2 = m;
            return finish_data(buf, t, m);
        }
        return finish_data(buf, tok(Kind::Decimal, 0, num_end, num_end, false, in_common), num_end);
    }
    if x == b'#' {
        if n == 1 {
            return Expect::Reject;
        }
        let c = buf[1];
        if is_digit(c) {
            // <ARBITRARY BLOCK PROGRAM DATA>
            let d = (c - b'0') as usize;
            if d == 0 {
                // indefinite format: everything up to the terminating NL^END
                if n == 2 || buf[n - 1] != b'\n' {
                    return Expect::Reject;
                }
                return Expect::Tok(tok(Kind::Block, 2, n - 1, n, false, in_common));
            }
            if 2 + d > n {
                return Expect::Reject; // truncated length field
            }
            let mut len: usize = 0;
            let mut j = 2;
            while j < 2 + d {
                if !is_digit(buf[j]) {
                    return Expect::Reject; // malformed length field
                }
                len = len * 10 + (buf[j] - b'0') as usize;
                j += 1;
            }
            if 2 + d + len > n {
                return Expect::Reject; // truncated block
            }
            let end = 2 + d + len;
            return finish_data(buf, tok(Kind::Block, 2 + d, end, end, false, in_common), end);
        }
        // <NONDECIMAL NUMERIC PROGRAM DATA>
        let radix = match c {
            b'H' | b'h' => 16,
            b'Q' | b'q' => 8,
            b'B' | b'b' => 2,
            _ => return Expect::Reject,
        };
        let mut j = 2;
        let mut v: u128 = 0;
        let mut overflow = false;
        while j < n {
            match radix_digit(buf[j], radix) {
                Some(dv) => {
                    v = v * radix as u128 + dv as u128;
                    if v > u64::MAX as u128 {
                        overflow = true;
                        v = 0;
                    }
                }
                None => break,
            }
            j += 1;
        }
        if j == 2 {
            return Expect::Reject; // no digit
        }
        if overflow {
            return Expect::Reject; // value does not fit: an error is required (-222 accepted)
        }
        let mut t = tok(Kind::NonDecimal, 2, j, j, false, in_common);
        t.value = v as u64;
        return finish_data(buf, t, j);
    }
    if x == b'"' || x == b'\'' {
        // <STRING PROGRAM DATA>
        let mut j = 1;
        loop {
            if j >= n {
                return Expect::Reject; // unterminated string
            }
            let c = buf[j];
            if c == x {
                if j + 1 < n && buf[j + 1] == x {
                    j += 2; // doubled quote
                    continue;
                }
                break;
            }
            if c >= 0x80 {
                return Expect::Reject;
            }
            j += 1;
        }
        return finish_data(buf, tok(Kind::Str, 1, j, j + 1, false, in_common), j + 1);
    }
    if x == b'(' {
        // <EXPRESSION PROGRAM DATA>
        let mut j = 1;
        let mut hash = false;
        loop {
            if j >= n {
                return Expect::Reject; // unterminated expression
            }
            let c = buf[j];
            if c == b')' {
                break;
            }
            if c >= 0x80 || c == b'"' || c == b'\'' || c == b';' || c == b'(' {
                return Expect::Reject;
            }
            if c == b'#' || is_ctrl(c) {
                hash = true;
            }
            j += 1;
        }
        if hash {
            return Expect::Any;
        }
        return finish_data(buf, tok(Kind::Expr, 1, j, j + 1, false, in_common), j + 1);
    }
    // any other printable ASCII character cannot start a data element
    Expect::Reject
}

#[cfg(test)]
mod tests {
    use super::*;

    fn kind(buf: &[u8], h: bool) -> Option<(Kind, usize, usize, usize)> {
        match ref_step(buf, h, false) {
            Expect::Tok(t) => Some((t.kind, t.a, t.b, t.consumed)),
            _ => None,
        }
    }

    #[test]
    fn basics() {
        assert_eq!(kind(b"TRIG:SOUR", true), Some((Kind::Mnemonic, 0, 4, 4)));
        assert_eq!(kind(b":SOUR", true), Some((Kind::Colon, 0, 1, 1)));
        assert_eq!(kind(b"*IDN?", true), Some((Kind::Mnemonic, 0, 4, 4)));
        assert_eq!(kind(b"? 1", true), Some((Kind::Query, 0, 1, 1)));
        assert_eq!(kind(b";  A", false), Some((Kind::Semi, 0, 1, 3)));
        assert_eq!(kind(b"  1", false), Some((Kind::HeaderSep, 0, 2, 2)));
        assert_eq!(kind(b"CHAR , 1", false), Some((Kind::CharData, 0, 4, 5)));
        assert_eq!(kind(b"-1.5e-3 ;", false), Some((Kind::Decimal, 0, 7, 8)));
        assert_eq!(kind(b"1 V", false), Some((Kind::DecimalSuffix, 0, 1, 3)));
        assert_eq!(kind(b"#HfF,", false), Some((Kind::NonDecimal, 2, 4, 4)));
        assert_eq!(kind(b"#15ab;de,", false), Some((Kind::Block, 3, 8, 8)));
        assert_eq!(kind(b"\"a\"\"b;\",", false), Some((Kind::Str, 1, 6, 7)));
        assert_eq!(kind(b"(@1,2)", false), Some((Kind::Expr, 1, 5, 6)));
        assert_eq!(ref_step(b"ABCDEFGHIJKLM", true, false), Expect::Reject);
        assert_eq!(ref_step(b"\"abc", false, false), Expect::Reject);
        assert_eq!(ref_step(b"#15ab", false, false), Expect::Reject);
        assert_eq!(ref_step(b"#2+5abcde", false, false), Expect::Reject);
        assert_eq!(ref_step(b"1 2", false, false), Expect::Reject);
        assert_eq!(ref_step(b",1", true, false), Expect::Reject);
        assert_eq!(ref_step(b"\n", false, false), Expect::End);
        assert_eq!(ref_step(b"", true, false), Expect::End);
    }
}
