//! Reference SCPI mnemonic matcher (SCPI-99 vol.1 6.2.1 / 6.2.5.2), written from the text:
//! split trailing digits, compare the alphabetic part with the short or the long form ignoring
//! case, compare the numeric suffixes where an absent suffix means 1.

pub fn is_upper(b: u8) -> bool {
    b >= b'A' && b <= b'Z'
}
pub fn is_lower(b: u8) -> bool {
    b >= b'a' && b <= b'z'
}
pub fn is_digit(b: u8) -> bool {
    b >= b'0' && b <= b'9'
}
fn up(b: u8) -> u8 {
    if is_lower(b) {
        b - 32
    } else {
        b
    }
}

pub fn eq_nocase(a: &[u8], b: &[u8]) -> bool {
    if a.len() != b.len() {
        return false;
    }
    let mut i = 0;
    while i < a.len() {
        if up(a[i]) != up(b[i]) {
            return false;
        }
        i += 1;
    }
    true
}

/// index where the trailing digit run starts (== len when there is none)
pub fn suffix_start(x: &[u8]) -> usize {
    let mut i = x.len();
    while i > 0 && is_digit(x[i - 1]) {
        i -= 1;
    }
    i
}

/// SCPI shape of a defined mnemonic: [A-Z]+ [a-z]* [0-9]*
pub fn shape_ok(m: &[u8]) -> bool {
    let mut i = 0;
    while i < m.len() && is_upper(m[i]) {
        i += 1;
    }
    if i == 0 {
        return false;
    }
    while i < m.len() && is_lower(m[i]) {
        i += 1;
    }
    while i < m.len() && is_digit(m[i]) {
        i += 1;
    }
    i == m.len()
}

/// length of the short form (leading upper-case run)
pub fn short_len(m: &[u8]) -> usize {
    let mut i = 0;
    while i < m.len() && is_upper(m[i]) {
        i += 1;
    }
    i
}

fn alpha_ok(malpha: &[u8], salpha: &[u8]) -> bool {
    eq_nocase(salpha, malpha) || eq_nocase(salpha, &malpha[..short_len(malpha)])
}

/// reference for `mnemonic_match` (default-1 suffix rule)
pub fn ref_match(m: &[u8], s: &[u8]) -> bool {
    let mi = suffix_start(m);
    let si = suffix_start(s);
    let (malpha, msuf) = (&m[..mi], &m[mi..]);
    let (salpha, ssuf) = (&s[..si], &s[si..]);
    if salpha.is_empty() {
        return false;
    }
    let one: &[u8] = b"1";
    let msuf = if msuf.is_empty() { one } else { msuf };
    let ssuf = if ssuf.is_empty() { one } else { ssuf };
    alpha_ok(malpha, salpha) && msuf == ssuf
}

/// reference for `mnemonic_compare` (no suffix rule: the whole text, or the short form of a
/// suffix-less mnemonic)
pub fn ref_compare(m: &[u8], s: &[u8]) -> bool {
    let mi = suffix_start(m);
    eq_nocase(s, m) || (mi == m.len() && eq_nocase(s, &m[..short_len(m)]))
}

/// candidate alphabet: letters, digits, underscore
pub fn cand_ok(s: &[u8]) -> bool {
    let mut i = 0;
    while i < s.len() {
        let b = s[i];
        if !(is_upper(b) || is_lower(b) || is_digit(b) || b == b'_') {
            return false;
        }
        i += 1;
    }
    true
}

/// a numeric suffix spelled with a leading zero (`TRIG01`): the property does not say whether
/// suffixes compare as numbers or as text, so such inputs carry no requirement
pub fn suffix_has_leading_zero(x: &[u8]) -> bool {
    let i = suffix_start(x);
    i < x.len() && x[i] == b'0'
}

#[cfg(test)]
mod tests {
    use super::*;
    // the repository's own test inputs (scpi/src/parser/tokenizer/tests.rs) through the reference
    #[test]
    fn repo_inputs() {
        assert!(ref_compare(b"TRIGger", b"trigger"));
        assert!(ref_compare(b"TRIGger", b"trig"));
        assert!(!ref_compare(b"TRIGger", b"trigg"));
        assert!(!ref_compare(b"TRIGger", b"tri"));
        assert!(ref_match(b"TRIGger", b"trig1"));
        assert!(ref_match(b"TRIGger1", b"trig"));
        assert!(ref_match(b"TRIGger2", b"trigger2"));
        assert!(!ref_match(b"TRIGger2", b"trig"));
        assert!(!ref_match(b"TRIGger", b"trig2"));
        assert!(ref_match(b"L125", b"l125"));
        assert!(!ref_match(b"L125", b"l1"));
        for (m, s) in [(&b"TRIGger"[..], &b"trig"[..]), (b"TRIGger2", b"TRIG2"), (b"ASCii1", b"asc"), (b"L125", b"L12"),
                       (b"ABc", b"ab_"), (b"ABc", b"abc1"), (b"A", b"")] {
            assert_eq!(ref_match(m, s), scpi::parser::mnemonic_match(m, s), "{:?} {:?}", m, s);
            assert_eq!(ref_compare(m, s), scpi::parser::mnemonic_compare(m, s), "{:?} {:?}", m, s);
        }
    }
}
