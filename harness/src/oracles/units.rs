//! SCPI-99 vol.1 section 7 suffix tables, transcribed independently of scpi/src/parser/suffix.rs:
//! suffix multipliers (table 7-2, with the MHZ / MOHM exceptions) and the suffix units of the
//! quantities the library supports (table 7-1).

/// (text, factor)
pub const MULTIPLIERS: [(&[u8], f64); 12] = [
    (b"EX", 1e18),
    (b"PE", 1e15),
    (b"T", 1e12),
    (b"G", 1e9),
    (b"MA", 1e6),
    (b"K", 1e3),
    (b"M", 1e-3),
    (b"U", 1e-6),
    (b"N", 1e-9),
    (b"P", 1e-12),
    (b"F", 1e-15),
    (b"A", 1e-18),
];

#[derive(Clone, Copy)]
pub struct Unit {
    pub name: &'static [u8],
    /// value_in_base = (v + off) * k
    pub k: f64,
    pub off: f64,
    /// takes SCPI multipliers
    pub mult: bool,
    /// `M` means mega for this unit (MHZ, MOHM)
    pub m_is_mega: bool,
    /// magnitude is fixed by SI/SCPI (ANN "year" is not: 365 d, Julian, tropical ...)
    pub exact: bool,
}

const fn si(name: &'static [u8]) -> Unit {
    Unit { name, k: 1.0, off: 0.0, mult: true, m_is_mega: false, exact: true }
}
const fn named(name: &'static [u8], k: f64) -> Unit {
    Unit { name, k, off: 0.0, mult: false, m_is_mega: false, exact: true }
}

pub const PI: f64 = 3.14159265358979323846;

#[derive(Clone, Copy, PartialEq, Eq, Debug)]
pub enum Q {
    Potential,
    Current,
    Power,
    Energy,
    Charge,
    Capacitance,
    Inductance,
    Resistance,
    Conductance,
    Frequency,
    Time,
    Angle,
    Ratio,
    Temperature,
}

const U_POTENTIAL: [Unit; 1] = [si(b"V")];
const U_CURRENT: [Unit; 1] = [si(b"A")];
const U_POWER: [Unit; 1] = [si(b"W")];
const U_ENERGY: [Unit; 4] = [
            si(b"J"),
            Unit { name: b"EV", k: 1.602176634e-19, off: 0.0, mult: true, m_is_mega: false, exact: true },
            Unit { name: b"W.HR", k: 3600.0, off: 0.0, mult: true, m_is_mega: false, exact: true },
            Unit { name: b"WH", k: 3600.0, off: 0.0, mult: true, m_is_mega: false, exact: true },
        ];
const U_CHARGE: [Unit; 3] = [
            si(b"C"),
            Unit { name: b"A.HR", k: 3600.0, off: 0.0, mult: true, m_is_mega: false, exact: true },
            Unit { name: b"AH", k: 3600.0, off: 0.0, mult: true, m_is_mega: false, exact: true },
        ];
const U_CAPACITANCE: [Unit; 1] = [si(b"F")];
const U_INDUCTANCE: [Unit; 1] = [si(b"H")];
const U_RESISTANCE: [Unit; 1] = [Unit { name: b"OHM", k: 1.0, off: 0.0, mult: true, m_is_mega: true, exact: true }];
const U_CONDUCTANCE: [Unit; 1] = [si(b"SIE")];
const U_FREQUENCY: [Unit; 1] = [Unit { name: b"HZ", k: 1.0, off: 0.0, mult: true, m_is_mega: true, exact: true }];
const U_TIME: [Unit; 5] = [
            si(b"S"),
            named(b"MIN", 60.0),
            named(b"HR", 3600.0),
            named(b"D", 86400.0),
            Unit { name: b"ANN", k: 3.1536e7, off: 0.0, mult: false, m_is_mega: false, exact: false },
        ];
const U_ANGLE: [Unit; 6] = [
            si(b"RAD"),
            named(b"DEG", PI / 180.0),
            named(b"GON", PI / 200.0),
            named(b"MNT", PI / 10800.0),
            named(b"SEC", PI / 648000.0),
            named(b"REV", 2.0 * PI),
        ];
const U_RATIO: [Unit; 2] = [named(b"PCT", 1e-2), named(b"PPM", 1e-6)];
const U_TEMPERATURE: [Unit; 3] = [
            Unit { name: b"CEL", k: 1.0, off: 273.15, mult: false, m_is_mega: false, exact: true },
            Unit { name: b"FAR", k: 5.0 / 9.0, off: 459.67, mult: false, m_is_mega: false, exact: true },
            si(b"K"),
        ];

// base unit of the stored temperature value is kelvin
pub fn units(q: Q) -> &'static [Unit] {
    match q {
        Q::Potential => &U_POTENTIAL,
        Q::Current => &U_CURRENT,
        Q::Power => &U_POWER,
        Q::Energy => &U_ENERGY,
        Q::Charge => &U_CHARGE,
        Q::Capacitance => &U_CAPACITANCE,
        Q::Inductance => &U_INDUCTANCE,
        Q::Resistance => &U_RESISTANCE,
        Q::Conductance => &U_CONDUCTANCE,
        Q::Frequency => &U_FREQUENCY,
        Q::Time => &U_TIME,
        Q::Angle => &U_ANGLE,
        Q::Ratio => &U_RATIO,
        Q::Temperature => &U_TEMPERATURE,
    }
}

/// offset applied to a bare number (the library's base unit): celsius for temperature
pub fn bare(q: Q) -> (f64, f64) {
    match q {
        Q::Temperature => (1.0, 273.15),
        _ => (1.0, 0.0),
    }
}

/// the suffixes the library documents for each quantity (these must be accepted, in any case)
pub fn documented(q: Q) -> &'static [&'static [u8]] {
    match q {
        Q::Potential => &[b"KV", b"V", b"MV", b"UV"],
        Q::Current => &[b"KA", b"A", b"MA", b"UA", b"NA"],
        Q::Power => &[b"MAW", b"KW", b"W", b"MW", b"UW"],
        Q::Energy => &[b"MAJ", b"KJ", b"J", b"MJ", b"UJ", b"MAW.HR", b"WH", b"W.HR", b"MW.HR", b"EV"],
        Q::Charge => &[b"MAC", b"KC", b"C", b"MC", b"UC", b"AH", b"A.HR", b"MAH", b"MA.HR"],
        Q::Capacitance => &[b"F", b"MF", b"UF", b"NF", b"PF"],
        Q::Inductance => &[b"H", b"MH", b"UH", b"NH", b"PH"],
        Q::Resistance => &[b"GOHM", b"MOHM", b"KOHM", b"OHM", b"UOHM"],
        Q::Conductance => &[b"KSIE", b"SIE", b"MSIE", b"USIE"],
        Q::Frequency => &[b"GHZ", b"MHZ", b"MAHZ", b"KHZ", b"HZ"],
        Q::Time => &[b"S", b"MS", b"US", b"NS", b"MIN", b"HR", b"D", b"ANN"],
        Q::Angle => &[b"RAD", b"DEG", b"MNT", b"SEC", b"REV", b"GON"],
        Q::Ratio => &[b"PCT", b"PPM"],
        Q::Temperature => &[b"CEL", b"FAR", b"K"],
    }
}

fn up(b: u8) -> u8 {
    if b >= b'a' && b <= b'z' {
        b - 32
    } else {
        b
    }
}

fn eq_up(a: &[u8], b: &[u8]) -> bool {
    if a.len() != b.len() {
        return false;
    }
    let mut i = 0;
    while i < a.len() {
        if up(a[i]) != b[i] {
            return false;
        }
        i += 1;
    }
    true
}

pub fn is_documented(q: Q, suffix: &[u8]) -> bool {
    let d = documented(q);
    let mut i = 0;
    while i < d.len() {
        if eq_up(suffix, d[i]) {
            return true;
        }
        i += 1;
    }
    false
}

/// One SCPI reading of a suffix for a quantity: value_in_base = (v + off) * k
#[derive(Clone, Copy, Debug)]
pub struct Reading {
    pub k: f64,
    pub off: f64,
    pub exact: bool,
}

/// All SCPI readings `[multiplier]unit` of `suffix` (case-insensitive) for quantity `q` (at most 4).
pub fn readings(q: Q, suffix: &[u8]) -> ([Option<Reading>; 4], usize) {
    let mut out = [None; 4];
    let mut n = 0;
    let us = units(q);
    let mut i = 0;
    while i < us.len() {
        let u = us[i];
        let ul = u.name.len();
        if suffix.len() >= ul && eq_up(&suffix[suffix.len() - ul..], u.name) {
            let pre = &suffix[..suffix.len() - ul];
            if pre.is_empty() {
                if n < 4 {
                    out[n] = Some(Reading { k: u.k, off: u.off, exact: u.exact });
                    n += 1;
                }
            } else if u.mult {
                let mut j = 0;
                while j < MULTIPLIERS.len() {
                    let (mt, mut mk) = MULTIPLIERS[j];
                    if eq_up(pre, mt) {
                        if u.m_is_mega && mt.len() == 1 && mt[0] == b'M' {
                            mk = 1e6;
                        }
                        if n < 4 {
                            out[n] = Some(Reading { k: u.k * mk, off: u.off, exact: u.exact });
                            n += 1;
                        }
                    }
                    j += 1;
                }
            }
        }
        i += 1;
    }
    (out, n)
}

pub fn close(got: f64, want: f64) -> bool {
    let d = if got > want { got - want } else { want - got };
    let a = if want < 0.0 { -want } else { want };
    d <= a * 2e-6 + 1e-37
}

fn abs(x: f64) -> f64 {
    if x < 0.0 {
        -x
    } else {
        x
    }
}

/// Judge a conversion result `x` of `(v, suffix)` for quantity `q`:
/// returns (number of SCPI readings of the suffix, x matches one of them).
/// Written with concrete table indices so that every scale factor is a constant of the unrolled
/// program (no symbolic-by-symbolic float multiplication).
/// x is within 64 units in the last place (f32) of the exactly scaled value, or both are tiny
fn near(x: f64, want: f64, scale: f64) -> bool {
    let w = want as f32;
    let xf = x as f32;
    if w == xf {
        return true;
    }
    // absolute slack relative to the magnitude of the operands (offset cancellation: -273.15 CEL)
    let d = (xf - w) as f64;
    let d = if d < 0.0 { -d } else { d };
    d <= scale
}

pub fn judge(q: Q, suffix: &[u8], v: f32, x: f32) -> (usize, bool) {
    let us = units(q);
    let mut n = 0usize;
    let mut okv = false;
    let v = v as f64;
    let x = x as f64;
    let mut i = 0;
    while i < us.len() {
        let u = us[i];
        let ul = u.name.len();
        if suffix.len() >= ul && eq_up(&suffix[suffix.len() - ul..], u.name) {
            let pre = &suffix[..suffix.len() - ul];
            if pre.is_empty() {
                n += 1;
                let want = (v + u.off) * u.k;
                if !u.exact || near(x, want, (abs(want) + abs(u.off * u.k)) * 2e-6 + 1e-37) {
                    okv = true;
                }
            } else if u.mult {
                let mut j = 0;
                while j < MULTIPLIERS.len() {
                    let (mt, mk0) = MULTIPLIERS[j];
                    let mk = if u.m_is_mega && mt.len() == 1 && mt[0] == b'M' { 1e6 } else { mk0 };
                    if eq_up(pre, mt) {
                        n += 1;
                        let k = u.k * mk;
                        let want = (v + u.off) * k;
                        if !u.exact || near(x, want, (abs(want) + abs(u.off * k)) * 2e-6 + 1e-37) {
                            okv = true;
                        }
                    }
                    j += 1;
                }
            }
        }
        i += 1;
    }
    (n, okv)
}

#[cfg(test)]
mod tests {
    use super::*;
    #[test]
    fn table() {
        let (r, n) = readings(Q::Time, b"ms");
        assert_eq!(n, 1);
        assert!(close(r[0].unwrap().k, 1e-3));
        let (r, n) = readings(Q::Frequency, b"MHZ");
        assert_eq!(n, 1);
        assert!(close(r[0].unwrap().k, 1e6));
        let (r, n) = readings(Q::Energy, b"MJ");
        assert_eq!(n, 1);
        assert!(close(r[0].unwrap().k, 1e-3));
        let (_, n) = readings(Q::Energy, b"POTATO");
        assert_eq!(n, 0);
        // every documented suffix has exactly one SCPI reading
        for q in [Q::Potential, Q::Current, Q::Power, Q::Energy, Q::Charge, Q::Capacitance, Q::Inductance, Q::Resistance,
                  Q::Conductance, Q::Frequency, Q::Time, Q::Angle, Q::Ratio, Q::Temperature] {
            for s in documented(q) {
                assert_eq!(readings(q, s).1, 1, "{:?} {:?}", q, core::str::from_utf8(s));
            }
        }
    }
}
