//! Independent reference models, written from the standards' text.
pub mod round;
pub mod esr;
pub mod mnemonic;
pub mod units;
pub mod lexer;
pub mod lists;
