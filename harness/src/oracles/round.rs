//! Exact "round to nearest integer" oracle for C07 (integer arithmetic only).

/// The set of integers nearest to `v` (two at an exact tie), as (lo, hi) with lo <= hi.
/// `v` must be finite.
pub fn nearest(v: f64) -> (i128, i128) {
    // 2^63 and beyond: every double is an integer, `as i128` is exact (|v| < 2^127 for
    // the callers' ranges is not needed: the cast saturates and the callers only compare
    // against type bounds far below 2^127).
    let a = if v < 0.0 { -v } else { v };
    if a >= 9007199254740992.0 {
        let n = v as i128;
        return (n, n);
    }
    // |v| < 2^53: truncation and the remainder are exact
    let t = v as i64;
    let frac = v - (t as f64);
    let t = t as i128;
    if frac == 0.5 {
        (t, t + 1)
    } else if frac > 0.5 {
        (t + 1, t + 1)
    } else if frac == -0.5 {
        (t - 1, t)
    } else if frac < -0.5 {
        (t - 1, t - 1)
    } else {
        (t, t)
    }
}

/// Outcome of an integer conversion as the oracle sees it.
#[derive(Clone, Copy, PartialEq, Eq, Debug)]
pub enum Out {
    Value(i128),
    Code(i16),
}

/// Is `out` acceptable for the (non-NaN) float `v` and the type range [min, max]?
pub fn acceptable(v: f64, min: i128, max: i128, out: Out) -> bool {
    if v == f64::INFINITY || v == f64::NEG_INFINITY {
        return out == Out::Code(-222);
    }
    let (lo, hi) = nearest(v);
    match out {
        Out::Value(n) => (n == lo || n == hi) && n >= min && n <= max,
        // a range error is right iff some nearest integer is not representable
        Out::Code(-222) => lo < min || hi > max,
        _ => false,
    }
}
