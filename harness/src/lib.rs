//! Harness crate: obligations (`checks`), independent reference models
//! (`oracles`), Kani proof wrappers (`proofs`, cfg(kani) only) and the native
//! replayer (`src/bin/replay.rs`).
//!
//! Every obligation is an ordinary function `fn chk<S: Src>(s: &mut S) -> R`.
//! All of its inputs are drawn from `S` in program order.  Under Kani `S` is
//! `Sym` (every draw is `kani::any()`), natively `S` is `Replay` (every draw
//! consumes the next byte vector of a concrete-playback counterexample), so
//! the same code runs symbolically and as a native replay against the real,
//! unstubbed crates.
#![allow(clippy::all)]
#![allow(dead_code)]

pub mod src;
pub use src::*;

pub mod oracles;
pub mod checks;
pub mod stubs;
pub mod dev;
pub mod hcall;

#[cfg(kani)]
mod proofs;

/// Result of an obligation: `Err(msg)` names the violated obligation.
pub type R = Result<(), &'static str>;

/// obligation: condition must hold
#[macro_export]
macro_rules! ob {
    ($c:expr, $m:literal) => {
        if !($c) {
            return Err($m);
        }
    };
}

/// reachability witness (vacuity guard): must be SATISFIED under Kani
#[macro_export]
macro_rules! witness {
    ($c:expr, $m:literal) => {
        #[cfg(kani)]
        kani::cover!($c, $m);
        #[cfg(not(kani))]
        {
            let _ = &$c;
        }
    };
}

/// assumption on the inputs; natively a failed assumption voids the case
#[macro_export]
macro_rules! assume {
    ($s:expr, $c:expr) => {
        $s.assume($c);
        #[cfg(not(kani))]
        if !($c) {
            return Ok(());
        }
    };
}

/// human-readable note about the decoded inputs (native replay only)
#[macro_export]
macro_rules! note {
    ($($a:tt)*) => {
        #[cfg(not(kani))]
        {
            std::eprintln!($($a)*);
        }
    };
}
