//! Contract stubs (Kani `#[kani::stub]` targets) and the globals they read.
//!
//! A stub never draws a symbolic value itself: the harness draws every input
//! up-front (so the draw order is identical in the native replay, where no
//! stub exists) and parks what the stub must return in these globals.

use lexical_core::{FromLexical, Result as LResult};

pub static mut STUB_F32: f32 = 0.0;
pub static mut STUB_F64: f64 = 0.0;
/// 0 = Ok(value); 1 = Overflow; 2 = Underflow; 3 = InvalidDigit; 4 = Empty (any other kind)
pub static mut STUB_FLOAT_MODE: u8 = 0;

fn float_err(mode: u8) -> lexical_core::Error {
    match mode {
        1 => lexical_core::Error::Overflow(0),
        2 => lexical_core::Error::Underflow(0),
        3 => lexical_core::Error::InvalidDigit(0),
        _ => lexical_core::Error::Empty(0),
    }
}

/// Stub for `lexical_core::parse::<N>`: float requests return the parked
/// value (lexical-core's float parser is outside the reach of bit-blasting,
/// its correct-rounding contract is trusted); integer requests run the real
/// lexical-core integer parser.
pub fn lexical_parse_stub<N: FromLexical>(bytes: &[u8]) -> LResult<N> {
    let name = core::any::type_name::<N>();
    unsafe {
        if name == "f32" {
            if STUB_FLOAT_MODE == 0 {
                { let v = STUB_F32; Ok(core::mem::transmute_copy::<f32, N>(&v)) }
            } else {
                Err(float_err(STUB_FLOAT_MODE))
            }
        } else if name == "f64" {
            if STUB_FLOAT_MODE == 0 {
                { let v = STUB_F64; Ok(core::mem::transmute_copy::<f64, N>(&v)) }
            } else {
                Err(float_err(STUB_FLOAT_MODE))
            }
        } else {
            N::from_lexical(bytes)
        }
    }
}

// ---------------------------------------------------------------------------
// Parameters::next_data::<T>  ->  "returns any T, or a documented error"
// (rule 2 of DESIGN.md: decode once in C04/C07, stub the decode in handler harnesses)
// ---------------------------------------------------------------------------
use scpi::error::{Error, ErrorCode};
use scpi::parser::parameters::Parameters;
use scpi::parser::tokenizer::Token;

/// 0 = Ok(value); otherwise the SCPI error number to return (e.g. -222, -109, -104)
pub static mut STUB_ND_ERR: i16 = 0;
pub static mut STUB_ND_U8: u8 = 0;
pub static mut STUB_ND_U16: u16 = 0;
/// how often the stub was called (a handler must pull exactly the parameters it documents)
pub static mut STUB_ND_CALLS: u8 = 0;

pub fn next_data_stub<'a, 'b, T>(_this: &mut Parameters<'a, 'b>) -> Result<T, Error>
where
    T: TryFrom<Token<'a>, Error = Error>,
    'a: 'a,
    'b: 'b,
{
    unsafe {
        STUB_ND_CALLS = STUB_ND_CALLS.wrapping_add(1);
        if STUB_ND_ERR != 0 {
            return Err(match ErrorCode::get_error(STUB_ND_ERR) {
                Some(c) => Error::new(c),
                None => Error::new(ErrorCode::DataOutOfRange),
            });
        }
        if core::mem::size_of::<T>() == 1 {
            let v = STUB_ND_U8;
            Ok(core::mem::transmute_copy::<u8, T>(&v))
        } else {
            let v = STUB_ND_U16;
            Ok(core::mem::transmute_copy::<u16, T>(&v))
        }
    }
}

// ---------------------------------------------------------------------------
// <[u8]>::is_ascii: core's implementation reads the slice a usize at a time after `align_offset`,
// which CBMC can only treat nondeterministically and at great cost; the stub is the byte loop of
// its documentation ("checks if all bytes in this slice are within the ASCII range").
// ---------------------------------------------------------------------------
pub fn is_ascii_stub(this: &[u8]) -> bool {
    let mut i = 0;
    while i < this.len() {
        if this[i] >= 0x80 {
            return false;
        }
        i += 1;
    }
    true
}
