//! C03 — mnemonics match only their short or long form, with the default-1 suffix rule.

use crate::oracles::mnemonic::*;
use crate::{assume, ob, witness, Src, R};
use scpi::parser::tokenizer::Token;
use scpi::parser::{mnemonic_compare, mnemonic_match};

/// defined mnemonic of 1..=L bytes (SCPI shape), candidate of 0..=L bytes over [A-Za-z0-9_]
pub fn matcher<const L: usize, S: Src>(s: &mut S) -> R {
    let mb: [u8; L] = crate::bytes::<L, S>(s);
    let sb: [u8; L] = crate::bytes::<L, S>(s);
    let lm = s.u8() as usize;
    let ls = s.u8() as usize;
    assume!(s, lm >= 1 && lm <= L && ls <= L);
    let m = &mb[..lm];
    let c = &sb[..ls];
    assume!(s, shape_ok(m));
    assume!(s, cand_ok(c));
    // suffixes spelled with a leading zero: no requirement (numeric vs textual equality is not stated)
    assume!(s, !suffix_has_leading_zero(m) && !suffix_has_leading_zero(c));
    let got_match = mnemonic_match(m, c);
    let got_cmp = mnemonic_compare(m, c);
    let want_match = ref_match(m, c);
    let want_cmp = ref_compare(m, c);
    crate::note!("C03 matcher: mnemonic {:?} candidate {:?}: match {} (reference {}), compare {} (reference {})",
        core::str::from_utf8(m), core::str::from_utf8(c), got_match, want_match, got_cmp, want_cmp);
    witness!(want_match && lm > ls && ls >= 2, "matcher: short form matches");
    witness!(want_match && !want_cmp, "matcher: match through the default-1 suffix rule");
    witness!(!want_match && ls > 0, "matcher: a mismatch");
    ob!(got_match == want_match, "C03: mnemonic_match differs from the short/long-form + default-1 suffix rule");
    ob!(got_cmp == want_cmp, "C03: mnemonic_compare differs from the short/long-form rule");
    Ok(())
}

/// `Token::match_program_header`: equals the reference for mnemonic / character-data tokens, false otherwise
pub fn header<const L: usize, S: Src>(s: &mut S) -> R {
    let mb: [u8; L] = crate::bytes::<L, S>(s);
    let sb: [u8; L] = crate::bytes::<L, S>(s);
    let lm = s.u8() as usize;
    let ls = s.u8() as usize;
    assume!(s, lm >= 1 && lm <= L && ls <= L);
    let m = &mb[..lm];
    let c = &sb[..ls];
    assume!(s, shape_ok(m));
    assume!(s, cand_ok(c));
    assume!(s, !suffix_has_leading_zero(m) && !suffix_has_leading_zero(c));
    let want_match = ref_match(m, c);
    let a = Token::ProgramMnemonic(c).match_program_header(m);
    let b = Token::CharacterProgramData(c).match_program_header(m);
    crate::note!("C03 header: mnemonic {:?} token text {:?}: ProgramMnemonic {} CharacterProgramData {} reference {}",
        core::str::from_utf8(m), core::str::from_utf8(c), a, b, want_match);
    witness!(want_match, "header: a match");
    ob!(a == want_match, "C03: match_program_header(ProgramMnemonic) differs from the reference");
    ob!(b == want_match, "C03: match_program_header(CharacterProgramData) differs from the reference");
    ob!(!Token::StringProgramData(c).match_program_header(m)
        && !Token::DecimalNumericProgramData(c).match_program_header(m)
        && !Token::ArbitraryBlockData(c).match_program_header(m)
        && !Token::ExpressionProgramData(c).match_program_header(m)
        && !Token::HeaderQuerySuffix.match_program_header(m),
        "C03: a non-mnemonic token matches a header");
    Ok(())
}
