//! C10 — responses are framed exactly: `;` between units, `,` between data, one final NL.
//! K-fmt level: the real `message_start` / `response_unit` / `header` / `data` / `finish` /
//! `message_end` driven by a symbolic script, compared byte for byte with a reference framer.
//! (The two exits of the dispatcher's unit loop are RL-tok obligations, see c05/rl.)

use crate::{assume, ob, witness, Src, R};
use arrayvec::ArrayVec;
use scpi::parser::format::{Arbitrary, Character};
use scpi::parser::response::Formatter;

/// script: up to U units, each with an optional (one- or two-level) header and 1..=3 data elements,
/// each datum a bool ("0"/"1"), the character datum AB, or the one-byte block `#11;` (a datum whose
/// last byte is the unit separator character)
fn drive<F: Formatter, const U: usize, S: Src>(s: &mut S, f: &mut F, want: &mut ArrayVec<u8, 64>) -> Result<bool, &'static str> {
    let units = s.u8() as usize;
    s.assume(units <= U);
    #[cfg(not(kani))]
    if units > U {
        return Ok(false);
    }
    if f.message_start().is_err() {
        return Err("C10: message_start failed");
    }
    let mut u = 0;
    while u < U {
        // draw the unit's script even when it is not executed (fixed draw order)
        let hdr = s.u8() % 3;
        let nd = 1 + (s.u8() % 3) as usize;
        let kinds = [s.u8() % 3, s.u8() % 3, s.u8() % 3];
        let vals = [s.bool(), s.bool(), s.bool()];
        if u < units {
            if u > 0 {
                want.push(b';');
            }
            let mut ru = match f.response_unit() {
                Ok(ru) => ru,
                Err(_) => return Err("C10: response_unit failed"),
            };
            if hdr >= 1 {
                ru.header(b"H");
                want.push(b'H');
            }
            if hdr == 2 {
                ru.header(b"SUB");
                want.push(b':');
                want.push(b'S');
                want.push(b'U');
                want.push(b'B');
            }
            if hdr >= 1 {
                want.push(b' ');
            }
            let mut d = 0;
            while d < nd {
                if d > 0 {
                    want.push(b',');
                }
                if kinds[d] == 0 {
                    ru.data(vals[d]);
                    want.push(if vals[d] { b'1' } else { b'0' });
                } else if kinds[d] == 1 {
                    ru.data(Character(b"AB"));
                    want.push(b'A');
                    want.push(b'B');
                } else {
                    ru.data(Arbitrary(b";"));
                    want.push(b'#');
                    want.push(b'1');
                    want.push(b'1');
                    want.push(b';');
                }
                d += 1;
            }
            if ru.finish().is_err() {
                return Err("C10: finishing a response unit failed");
            }
        }
        u += 1;
    }
    // what `run` does when the token stream ends after a unit
    if !f.is_empty() {
        if f.message_end().is_err() {
            return Err("C10: message_end failed");
        }
    }
    if units > 0 {
        want.push(b'\n');
    }
    Ok(true)
}

fn same(a: &[u8], b: &[u8]) -> bool {
    if a.len() != b.len() {
        return false;
    }
    let mut i = 0;
    while i < a.len() {
        if a[i] != b[i] {
            return false;
        }
        i += 1;
    }
    true
}

pub fn framing_array<const U: usize, S: Src>(s: &mut S) -> R {
    let mut f: ArrayVec<u8, 64> = ArrayVec::new();
    let mut want: ArrayVec<u8, 64> = ArrayVec::new();
    if !drive::<_, U, S>(s, &mut f, &mut want)? {
        return Ok(());
    }
    crate::note!("C10 framing_array<{}>: got {:?} want {:?}", U, crate::checks::show(&f), crate::checks::show(&want));
    witness!(want.len() > 8, "framing: several units");
    ob!(same(&f, &want), "C10: response is not framed as units joined by ';', data by ',', header + space, one final NL");
    Ok(())
}

#[cfg(feature = "full")]
pub fn framing_vec<const U: usize, S: Src>(s: &mut S) -> R {
    let mut f: std::vec::Vec<u8> = std::vec::Vec::new();
    let mut want: ArrayVec<u8, 64> = ArrayVec::new();
    if !drive::<_, U, S>(s, &mut f, &mut want)? {
        return Ok(());
    }
    crate::note!("C10 framing_vec<{}>: got {:?} want {:?}", U, crate::checks::show(&f), crate::checks::show(&want));
    witness!(want.len() > 8, "framing: several units");
    let ok = same(&f, &want);
    core::mem::forget(f);
    ob!(ok, "C10: response (growable buffer) is not framed as units joined by ';', data by ',', header + space, one final NL");
    Ok(())
}
