//! C20 — derived enums map mnemonics to variants and back consistently.
//! Decided for a fixed family of enum definitions compiled into this crate (the derive macro's
//! input space is not a solver domain; the family is the stated bound on "programs").

use crate::oracles::mnemonic::{cand_ok, ref_match, suffix_has_leading_zero};
use crate::{assume, ob, witness, Src, R};
use arrayvec::ArrayVec;
use scpi::option::ScpiEnum;
use scpi::parser::response::ResponseData;
use scpi::parser::tokenizer::Token;

// `derive(ScpiEnum)` expands to paths starting with `scpi::`
#[derive(Copy, Clone, PartialEq, Eq, Debug, scpi_derive::ScpiEnum)]
pub enum E1 {
    #[scpi(mnemonic = b"BINary")]
    Binary,
    #[scpi(mnemonic = b"REAL")]
    Real,
    #[scpi(mnemonic = b"ASCii1")]
    Ascii1,
    #[scpi(mnemonic = b"ASCii2")]
    Ascii2,
    #[scpi(mnemonic = b"L125")]
    L125,
}

#[derive(Copy, Clone, PartialEq, Eq, Debug, scpi_derive::ScpiEnum)]
pub enum E2 {
    #[scpi(mnemonic = b"VOLTage")]
    Volt,
    #[scpi(mnemonic = b"CURRent")]
    Curr,
}

#[derive(Copy, Clone, PartialEq, Eq, Debug, scpi_derive::ScpiEnum)]
pub enum E3 {
    #[scpi(mnemonic = b"ALPHa")]
    Alpha(u8),
    #[scpi(mnemonic = b"BETA3")]
    Beta3(u16),
    #[scpi(mnemonic = b"GAMMa")]
    Gamma,
}

#[derive(Copy, Clone, PartialEq, Eq, Debug, scpi_derive::ScpiEnum)]
pub enum E4 {
    #[scpi(mnemonic = b"CHANnel1")]
    Ch1,
    #[scpi(mnemonic = b"CHANnel2")]
    Ch2,
    #[scpi(mnemonic = b"CHANnel10")]
    Ch10,
    #[scpi(mnemonic = b"X")]
    X,
    #[scpi(mnemonic = b"MAXimum")]
    Max,
    #[scpi(mnemonic = b"OFF")]
    Off,
}

pub trait Family: 'static + ScpiEnum + Copy + PartialEq + core::fmt::Debug + for<'a> TryFrom<Token<'a>, Error = scpi::error::Error> {
    /// (variant, declared mnemonic) in declaration order
    const TABLE: &'static [(Self, &'static [u8])];
}
impl Family for E1 {
    const TABLE: &'static [(Self, &'static [u8])] =
        &[(E1::Binary, b"BINary"), (E1::Real, b"REAL"), (E1::Ascii1, b"ASCii1"), (E1::Ascii2, b"ASCii2"), (E1::L125, b"L125")];
}
impl Family for E2 {
    const TABLE: &'static [(Self, &'static [u8])] = &[(E2::Volt, b"VOLTage"), (E2::Curr, b"CURRent")];
}
impl Family for E3 {
    const TABLE: &'static [(Self, &'static [u8])] = &[(E3::Alpha(0), b"ALPHa"), (E3::Beta3(0), b"BETA3"), (E3::Gamma, b"GAMMa")];
}
impl Family for E4 {
    const TABLE: &'static [(Self, &'static [u8])] = &[
        (E4::Ch1, b"CHANnel1"),
        (E4::Ch2, b"CHANnel2"),
        (E4::Ch10, b"CHANnel10"),
        (E4::X, b"X"),
        (E4::Max, b"MAXimum"),
        (E4::Off, b"OFF"),
    ];
}

/// reference: the first variant whose mnemonic reference-matches
fn ref_select<E: Family>(d: &[u8]) -> Option<E> {
    let mut i = 0;
    while i < E::TABLE.len() {
        if ref_match(E::TABLE[i].1, d) {
            return Some(E::TABLE[i].0);
        }
        i += 1;
    }
    None
}

/// character data of 0..=L bytes over [A-Za-z0-9_] -> variant
pub fn select<E: Family, const L: usize, S: Src>(s: &mut S) -> R {
    let b: [u8; L] = crate::bytes::<L, S>(s);
    let n = s.u8() as usize;
    assume!(s, n <= L);
    let d = &b[..n];
    assume!(s, cand_ok(d));
    assume!(s, !suffix_has_leading_zero(d));
    let want: Option<E> = ref_select(d);
    let got = E::from_mnemonic(d);
    let conv = E::try_from(Token::CharacterProgramData(d));
    crate::note!("C20 select<{}>: {:?} -> from_mnemonic {:?}, TryFrom {:?}, reference {:?}", core::any::type_name::<E>(),
        core::str::from_utf8(d), got, conv, want);
    witness!(want.is_some(), "select: a variant is selected");
    witness!(want.is_none() && n > 0, "select: no variant");
    ob!(got == want, "C20: from_mnemonic does not select exactly the variant whose mnemonic matches");
    match want {
        Some(v) => ob!(conv == Ok(v), "C20: TryFrom<Token> differs from from_mnemonic"),
        None => ob!(matches!(conv, Err(e) if e.get_code() == -224), "C20: unknown character data is not an illegal-parameter error (-224)"),
    }
    Ok(())
}

/// every other element type is a data type error
pub fn otherkinds<E: Family, S: Src>(s: &mut S) -> R {
    let p: [u8; 3] = crate::bytes::<3, S>(s);
    let v = s.u64();
    let r = [
        E::try_from(Token::DecimalNumericProgramData(&p)),
        E::try_from(Token::DecimalNumericSuffixProgramData(&p[..1], &p[1..])),
        E::try_from(Token::NonDecimalNumericProgramData(v)),
        E::try_from(Token::StringProgramData(&p)),
        E::try_from(Token::ArbitraryBlockData(&p)),
        E::try_from(Token::ExpressionProgramData(&p)),
    ];
    crate::note!("C20 otherkinds<{}>: {:?}", core::any::type_name::<E>(), r);
    witness!(true, "otherkinds: reached");
    let mut i = 0;
    while i < r.len() {
        ob!(matches!(r[i], Err(e) if e.get_code() == -104), "C20: a non-character element is not a data type error (-104)");
        i += 1;
    }
    Ok(())
}

/// each variant reports its own mnemonic, and its response text selects the same variant
/// (variant index concrete per instance: a symbolic variant makes the mnemonic a symbolic-length slice)
pub fn roundtrip<E: Family, const I: usize, S: Src>(_s: &mut S) -> R {
    let i = I;
    let (v, m) = E::TABLE[i];
    let mut out: ArrayVec<u8, 16> = ArrayVec::new();
    let r = v.format_response_data(&mut out);
    let back = E::from_mnemonic(&out);
    // and through the library's own lexer, as a parameter
    let tok = scpi::parser::tokenizer::Tokenizer::new_params(&out).next();
    let back2 = match tok {
        Some(Ok(t)) => E::try_from(t).ok(),
        _ => None,
    };
    crate::note!("C20 roundtrip<{}>: variant {:?} mnemonic {:?} -> response {:?} ({:?}) -> {:?} / via lexer {:?}",
        core::any::type_name::<E>(), v, core::str::from_utf8(v.mnemonic()), core::str::from_utf8(&out), r, back, back2);
    witness!(true, "roundtrip: reached");
    ob!(v.mnemonic() == m, "C20: variant does not report its own mnemonic");
    ob!(r.is_ok(), "C20: formatting an enum variant failed");
    ob!(!out.is_empty() && cand_ok(&out) && out[0].is_ascii_alphabetic(), "C09/C20: enum response is not character data");
    ob!(back == Some(v), "C09/C20: the response text of a variant does not select the same variant");
    ob!(back2 == Some(v), "C09/C20: the response text sent back as a parameter does not select the same variant");
    Ok(())
}
