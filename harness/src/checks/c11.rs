//! C11 — fixed-capacity, allocation-free operation: overflow is -225, never a panic.
//! (a) `Formatter for ArrayVec<u8, CAP>` against a reference byte vector, CAP = 0..8
//! (b) every `ResponseData` impl against a formatter whose write budget is symbolic
//! (c) allocation: these harnesses are compiled against `scpi` WITHOUT the `alloc`/`std` features
//!     (harness feature set without `full`), a configuration in which no allocating API exists.

use crate::{assume, ob, witness, Src, R};
use arrayvec::ArrayVec;
use scpi::error::{Error, Result as SResult};
use scpi::parser::format::{Arbitrary, Character, Expression, Hex};
use scpi::parser::response::{Formatter, ResponseData, ResponseUnit};

/// (a) a script of 4 primitive writes on an `ArrayVec<u8, CAP>`
pub fn formatter<const CAP: usize, S: Src>(s: &mut S) -> R {
    let mut f: ArrayVec<u8, CAP> = ArrayVec::new();
    let mut model = [0u8; 16];
    let mut ml = 0usize;
    let mut step = 0;
    while step < 4 {
        let op = s.u8() % 5;
        let n = (s.u8() % 4) as usize;
        let bytes: [u8; 3] = crate::bytes::<3, S>(s);
        // what the write appends when it fits
        let mut add = [0u8; 3];
        let mut al = 0;
        let r: SResult<()> = match op {
            0 => {
                add[0] = bytes[0];
                al = 1;
                f.push_byte(bytes[0])
            }
            1 => {
                let k = if n > 3 { 3 } else { n };
                let mut i = 0;
                while i < k {
                    add[i] = bytes[i];
                    i += 1;
                }
                al = k;
                f.push_str(&bytes[..k])
            }
            2 => {
                add[0] = b',';
                al = 1;
                f.data_separator()
            }
            3 => {
                add[0] = b'\n';
                al = 1;
                f.message_end()
            }
            _ => {
                // response_unit: ';' iff the buffer is not empty
                if ml > 0 {
                    add[0] = b';';
                    al = 1;
                }
                f.response_unit().map(|_| ())
            }
        };
        crate::note!("C11 formatter<{}>: step {} op {} n {} -> {:?}, len {}", CAP, step, op, n, r, f.len());
        if ml + al <= CAP {
            ob!(r.is_ok(), "C11: a write that fits the capacity failed");
            let mut i = 0;
            while i < al {
                model[ml + i] = add[i];
                i += 1;
            }
            ml += al;
        } else {
            witness!(true, "formatter: an overflowing write");
            ob!(matches!(r, Err(e) if e.get_code() == -225), "C11: a write that does not fit is not reported as -225 Out of memory");
        }
        ob!(f.len() == ml && f.len() <= CAP, "C11: buffer length differs from the reference (write beyond capacity or partial write)");
        let mut i = 0;
        while i < ml {
            ob!(f[i] == model[i], "C11: bytes differ from the growable reference / earlier bytes disturbed");
            i += 1;
        }
        step += 1;
    }
    Ok(())
}

/// formatter with a byte budget; records writes attempted after the first failure
pub struct Budget {
    pub buf: [u8; 48],
    pub len: usize,
    pub budget: usize,
    pub failed: bool,
    pub writes_after_failure: u8,
}

impl Budget {
    pub fn new(budget: usize) -> Self {
        Budget { buf: [0; 48], len: 0, budget, failed: false, writes_after_failure: 0 }
    }
    fn put(&mut self, s: &[u8]) -> SResult<()> {
        if self.failed {
            self.writes_after_failure = self.writes_after_failure.saturating_add(1);
        }
        if self.len + s.len() > self.budget || self.len + s.len() > 48 {
            self.failed = true;
            return Err(scpi::error::ErrorCode::OutOfMemory.into());
        }
        let mut i = 0;
        while i < s.len() {
            self.buf[self.len + i] = s[i];
            i += 1;
        }
        self.len += s.len();
        Ok(())
    }
}

impl Formatter for Budget {
    fn push_str(&mut self, s: &[u8]) -> SResult<()> {
        self.put(s)
    }
    fn push_byte(&mut self, b: u8) -> SResult<()> {
        self.put(&[b])
    }
    fn as_slice(&self) -> &[u8] {
        &self.buf[..self.len]
    }
    fn clear(&mut self) {
        self.len = 0;
    }
    fn len(&self) -> usize {
        self.len
    }
    fn message_start(&mut self) -> SResult<()> {
        Ok(())
    }
    fn message_end(&mut self) -> SResult<()> {
        self.push_byte(b'\n')
    }
    fn response_unit(&mut self) -> SResult<ResponseUnit> {
        // ResponseUnit has private fields: go through a real formatter is not possible here, the
        // element-level harness never asks for a unit
        Err(scpi::error::ErrorCode::DeviceSpecificError.into())
    }
}

/// (b) one element formatted with an unlimited and with a symbolic budget
fn element<T: ResponseData, S: Src>(s: &mut S, v: &T) -> R {
    let mut full = Budget::new(48);
    let r0 = v.format_response_data(&mut full);
    ob!(r0.is_ok() && !full.failed, "C11: element does not format into an unlimited buffer");
    let b = s.u8() as usize;
    assume!(s, b <= 48);
    let mut lim = Budget::new(b);
    let r = v.format_response_data(&mut lim);
    crate::note!("C11 element: full {:?} budget {} -> {:?} wrote {:?}", crate::checks::show(full.as_slice()), b, r, crate::checks::show(lim.as_slice()));
    witness!(b < full.len && b > 0, "element: budget ends inside the element");
    if b >= full.len {
        ob!(r.is_ok() && lim.len == full.len, "C11: element that fits did not format completely");
    } else {
        ob!(matches!(r, Err(e) if e.get_code() == -225), "C11: element that does not fit does not return the formatter's -225");
        ob!(lim.writes_after_failure == 0, "C11: element kept writing after the formatter failed");
    }
    ob!(lim.len <= full.len, "C11: limited run wrote more than the unlimited one");
    let mut i = 0;
    while i < lim.len {
        ob!(lim.buf[i] == full.buf[i], "C11: bytes written before exhaustion differ from the unlimited run");
        i += 1;
    }
    Ok(())
}

pub fn element_u16<S: Src>(s: &mut S) -> R {
    let v = s.u16();
    element(s, &v)
}
pub fn element_i32<S: Src>(s: &mut S) -> R {
    let v = s.u32() as i32;
    assume!(s, v > -100000 && v < 100000);
    element(s, &v)
}
pub fn element_hex_u16<S: Src>(s: &mut S) -> R {
    let v = s.u16();
    element(s, &Hex(v))
}
pub fn element_bool<S: Src>(s: &mut S) -> R {
    let v = s.bool();
    element(s, &v)
}
pub fn element_string<S: Src>(s: &mut S) -> R {
    let v: [u8; 2] = crate::bytes::<2, S>(s);
    assume!(s, v[0] < 0x80 && v[1] < 0x80);
    element(s, &&v[..])
}
pub fn element_block<S: Src>(s: &mut S) -> R {
    let v: [u8; 3] = crate::bytes::<3, S>(s);
    element(s, &Arbitrary(&v))
}
pub fn element_char_expr<S: Src>(s: &mut S) -> R {
    let v: [u8; 3] = crate::bytes::<3, S>(s);
    assume!(s, v[0] < 0x80 && v[1] < 0x80 && v[2] < 0x80);
    if s.bool() {
        element(s, &Character(&v))
    } else {
        element(s, &Expression(&v))
    }
}
pub fn element_error<S: Src>(s: &mut S) -> R {
    let c = s.i16();
    let ext = s.bool();
    let e = if ext { Error::custom(c, b"ab").extended(b"x") } else { Error::custom(c, b"ab") };
    element(s, &e)
}
pub fn element_list<S: Src>(s: &mut S) -> R {
    let mut a: ArrayVec<u16, 2> = ArrayVec::new();
    a.push(s.u16());
    a.push(s.u16());
    element(s, &a)
}
pub fn element_enum<S: Src>(s: &mut S) -> R {
    use crate::checks::c20::E1;
    let i = s.u8();
    let v = match i % 5 {
        0 => E1::Binary,
        1 => E1::Real,
        2 => E1::Ascii1,
        3 => E1::Ascii2,
        _ => E1::L125,
    };
    element(s, &v)
}

/// a whole response unit (ResponseUnit::data x2 + finish) on an ArrayVec of capacity CAP:
/// the first formatting error is latched and returned by finish, -225 when it does not fit
pub fn unit<const CAP: usize, S: Src>(s: &mut S) -> R {
    let a = s.u16();
    let b = s.bool();
    let mut big: ArrayVec<u8, 16> = ArrayVec::new();
    let r0 = big.response_unit().unwrap().data(a).data(b).finish();
    ob!(r0.is_ok(), "C11: unit does not fit 16 bytes");
    let mut f: ArrayVec<u8, CAP> = ArrayVec::new();
    let r = match f.response_unit() {
        Ok(mut ru) => ru.data(a).data(b).finish(),
        Err(e) => Err(e),
    };
    crate::note!("C11 unit<{}>: {} {} -> {:?} {:?} (unlimited {:?})", CAP, a, b, r, crate::checks::show(&f), crate::checks::show(&big));
    witness!(big.len() > CAP, "unit: does not fit");
    if big.len() <= CAP {
        ob!(r.is_ok() && f[..] == big[..], "C11: a unit that fits differs from the growable result");
    } else {
        ob!(matches!(r, Err(e) if e.get_code() == -225), "C05/C11: ResponseUnit does not return the first formatting error (-225)");
        ob!(f.len() <= CAP, "C11: wrote beyond the capacity");
    }
    Ok(())
}
