//! C08 — float, boolean and keyword parameters convert to the exact denoted value; every
//! conversion accepts only the element types documented for its target.
//! (The literal -> float rounding itself is lexical-core's: not applicable to this technique.)

use crate::oracles::mnemonic::eq_nocase;
use crate::{assume, ob, witness, Src, R};
use scpi::error::Error;
use scpi::parser::expression::channel_list::ChannelList;
use scpi::parser::expression::numeric_list::NumericList;
use scpi::parser::format::{Arbitrary, Character, Expression};
use scpi::parser::tokenizer::Token;

fn code<T>(r: &Result<T, Error>) -> i16 {
    match r {
        Ok(_) => 0,
        Err(e) => e.get_code(),
    }
}

macro_rules! float_passthrough {
    ($name:ident, $t:ty, $draw:ident, $park:ident) => {
        /// the value (or error kind) the float parser returns for the literal is handed on unchanged
        pub fn $name<S: Src>(s: &mut S) -> R {
            let v: $t = s.$draw();
            let mode = s.u8();
            assume!(s, mode < 5);
            // an <NRf> literal never denotes NaN (the keyword NAN is decided in float_keywords)
            assume!(s, !(mode == 0 && v.is_nan()));
            #[cfg(kani)]
            let r = {
                unsafe {
                    crate::stubs::$park = v;
                    crate::stubs::STUB_FLOAT_MODE = mode;
                }
                <$t>::try_from(Token::DecimalNumericProgramData(b"1.5"))
            };
            // native replay: only mode 0 has a literal (the real parser does not fail on an <NRf>)
            #[cfg(not(kani))]
            let r = {
                if mode != 0 || v.is_nan() {
                    s.assume(false);
                    return Ok(());
                }
                // every spelling below denotes exactly `v` under correct rounding: the shortest
                // round-trip literal and two long literals just inside the rounding interval of `v`
                // (they expose e.g. a detour through a wider float: double rounding)
                // The solver's value and (for f32) its upper neighbour are both tried: a double-rounding
                // detour shows only for one mantissa parity.
                let single = core::mem::size_of::<$t>() == 4;
                let mut r = Err(scpi::error::ErrorCode::NumericDataError.into());
                let mut cands = std::vec![v];
                if single && v.is_finite() && v != 0.0 {
                    cands.push(<$t>::from_bits(v.to_bits() + 1));
                }
                if single {
                    // two fixed odd-mantissa probes, so that the replay does not depend on which value
                    // the solver happened to pick
                    cands.push(1.0000001 as $t);
                    cands.push(1.0000004 as $t);
                }
                let mut bad = false;
                for c in cands {
                    for lit in crate::checks::spellings(c as f64, single) {
                        let rr = <$t>::try_from(Token::DecimalNumericProgramData(lit.as_bytes()));
                        std::eprintln!("C08 passthrough<{}>: literal {} (denotes {:e}) -> {:?}", stringify!($t), lit, c, rr);
                        if !matches!(rr, Ok(x) if x.to_bits() == c.to_bits()) {
                            bad = true;
                        }
                        if c.to_bits() == v.to_bits() || bad {
                            r = rr;
                        }
                        if bad {
                            break;
                        }
                    }
                    if bad {
                        break;
                    }
                }
                if bad {
                    return Err("C08: the float conversion does not return exactly what the literal denotes");
                }
                r
            };
            crate::note!("C08 passthrough<{}>: parser result mode {} value {:e} -> {:?}", stringify!($t), mode, v, r);
            witness!(mode == 0 && v.is_infinite(), "passthrough: infinity for an out-of-range magnitude");
            match mode {
                0 => ob!(matches!(r, Ok(x) if x.to_bits() == v.to_bits() || (x.is_nan() && v.is_nan())),
                    "C08: the float conversion does not return exactly what the literal denotes"),
                1 | 2 => ob!(code(&r) == -222, "C08: parser overflow/underflow not reported as -222"),
                3 => ob!(code(&r) == -121, "C08: invalid digit not reported as -121"),
                _ => ob!(code(&r) == -120, "C08: other parser error not reported as -120"),
            }
            Ok(())
        }
    };
}
float_passthrough!(passthrough_f32, f32, f32, STUB_F32);
float_passthrough!(passthrough_f64, f64, f64, STUB_F64);

/// keyword reference for floats
fn float_keyword(d: &[u8]) -> u8 {
    if eq_nocase(d, b"INF") || eq_nocase(d, b"INFINITY") {
        1
    } else if eq_nocase(d, b"NINF") || eq_nocase(d, b"NINFINITY") {
        2
    } else if eq_nocase(d, b"NAN") {
        3
    } else if eq_nocase(d, b"MAX") || eq_nocase(d, b"MAXIMUM") {
        4
    } else if eq_nocase(d, b"MIN") || eq_nocase(d, b"MINIMUM") {
        5
    } else {
        0
    }
}

/// character data of exactly N bytes -> f32 / f64 special values
pub fn float_keywords<const N: usize, S: Src>(s: &mut S) -> R {
    let d: [u8; N] = crate::bytes::<N, S>(s);
    let k = float_keyword(&d);
    let r32 = f32::try_from(Token::CharacterProgramData(&d));
    let r64 = f64::try_from(Token::CharacterProgramData(&d));
    crate::note!("C08 float_keywords: {:?} -> f32 {:?} f64 {:?}, reference keyword {}", core::str::from_utf8(&d), r32, r64, k);
    witness!(k != 0, "float_keywords: a keyword");
    let ok32 = match k {
        1 => matches!(r32, Ok(x) if x == f32::INFINITY),
        2 => matches!(r32, Ok(x) if x == f32::NEG_INFINITY),
        3 => matches!(r32, Ok(x) if x.is_nan()),
        4 => matches!(r32, Ok(x) if x == f32::MAX),
        5 => matches!(r32, Ok(x) if x == f32::MIN),
        _ => code(&r32) == -104,
    };
    let ok64 = match k {
        1 => matches!(r64, Ok(x) if x == f64::INFINITY),
        2 => matches!(r64, Ok(x) if x == f64::NEG_INFINITY),
        3 => matches!(r64, Ok(x) if x.is_nan()),
        4 => matches!(r64, Ok(x) if x == f64::MAX),
        5 => matches!(r64, Ok(x) if x == f64::MIN),
        _ => code(&r64) == -104,
    };
    ob!(ok32 && ok64, "C08: INF/NINF/NAN/MAX/MIN keyword does not yield the special value (or other character data is accepted)");
    Ok(())
}

/// bool from character data of exactly N bytes: ON / OFF in any case, everything else -224
pub fn bool_chars<const N: usize, S: Src>(s: &mut S) -> R {
    let d: [u8; N] = crate::bytes::<N, S>(s);
    let r = bool::try_from(Token::CharacterProgramData(&d));
    crate::note!("C08 bool_chars: {:?} -> {:?}", core::str::from_utf8(&d), r);
    witness!(eq_nocase(&d, b"ON") || eq_nocase(&d, b"OFF"), "bool_chars: ON/OFF");
    if eq_nocase(&d, b"ON") {
        ob!(r == Ok(true), "C08: ON is not true");
    } else if eq_nocase(&d, b"OFF") {
        ob!(r == Ok(false), "C08: OFF is not false");
    } else {
        ob!(code(&r) == -224, "C08: other character data must be an illegal parameter value for bool");
    }
    Ok(())
}

/// The accept matrix: every target x every data element kind, payload symbolic (3 bytes).
/// `Ok` only for the documented kinds, a command error otherwise - never a fabricated value.
pub fn accept_matrix<S: Src>(s: &mut S) -> R {
    let p: [u8; 3] = crate::bytes::<3, S>(s);
    let v = s.u64();
    let chr = Token::CharacterProgramData(&p);
    let suf = Token::DecimalNumericSuffixProgramData(&p[..1], &p[1..]);
    let non = Token::NonDecimalNumericProgramData(v);
    let st = Token::StringProgramData(&p);
    let blk = Token::ArbitraryBlockData(&p);
    let exp = Token::ExpressionProgramData(&p);
    crate::note!("C08 accept_matrix: payload {:?}", crate::checks::show(&p));
    witness!(p[0] == b'@', "accept_matrix: channel list");

    // &[u8]: string only, payload unchanged
    ob!(matches!(<&[u8]>::try_from(st), Ok(x) if x.as_ptr() == p.as_ptr() && x.len() == 3), "C08: &[u8] from a string is not the string's bytes");
    ob!(code(&<&[u8]>::try_from(chr)) == -104 && code(&<&[u8]>::try_from(suf)) == -104 && code(&<&[u8]>::try_from(non)) == -104
        && code(&<&[u8]>::try_from(blk)) == -104 && code(&<&[u8]>::try_from(exp)) == -104, "C08: &[u8] accepts a non-string element");
    // &str: string or block, valid UTF-8 only
    let utf8 = core::str::from_utf8(&p).is_ok();
    let s1 = <&str>::try_from(st);
    let s2 = <&str>::try_from(blk);
    if utf8 {
        ob!(matches!(s1, Ok(x) if x.as_bytes() == &p[..]) && matches!(s2, Ok(x) if x.as_bytes() == &p[..]), "C08: &str from string/block is not its text");
    } else {
        ob!(code(&s1) == -150 && code(&s2) == -150, "C08: invalid UTF-8 not reported as -150");
    }
    ob!(code(&<&str>::try_from(chr)) == -104 && code(&<&str>::try_from(suf)) == -104 && code(&<&str>::try_from(non)) == -104
        && code(&<&str>::try_from(exp)) == -104, "C08: &str accepts a non-string element");
    // Arbitrary: block only
    ob!(matches!(Arbitrary::try_from(blk), Ok(Arbitrary(x)) if x.as_ptr() == p.as_ptr() && x.len() == 3), "C08: Arbitrary from a block");
    ob!(code(&Arbitrary::try_from(chr)) == -104 && code(&Arbitrary::try_from(suf)) == -104 && code(&Arbitrary::try_from(non)) == -104
        && code(&Arbitrary::try_from(st)) == -104 && code(&Arbitrary::try_from(exp)) == -104, "C08: Arbitrary accepts a non-block element");
    // Character: character data only
    ob!(matches!(Character::try_from(chr), Ok(Character(x)) if x.as_ptr() == p.as_ptr() && x.len() == 3), "C08: Character from character data");
    ob!(code(&Character::try_from(blk)) == -104 && code(&Character::try_from(suf)) == -104 && code(&Character::try_from(non)) == -104
        && code(&Character::try_from(st)) == -104 && code(&Character::try_from(exp)) == -104, "C08: Character accepts another element type");
    // Expression: expression data only
    ob!(matches!(Expression::try_from(exp), Ok(Expression(x)) if x.as_ptr() == p.as_ptr() && x.len() == 3),
        "C08: Expression does not accept expression data");
    ob!(code(&Expression::try_from(blk)) == -104 && code(&Expression::try_from(chr)) == -104 && code(&Expression::try_from(suf)) == -104
        && code(&Expression::try_from(non)) == -104 && code(&Expression::try_from(st)) == -104, "C08: Expression accepts another element type");
    // lists: expression data only
    ob!(NumericList::try_from(exp).is_ok(), "C08: NumericList does not accept expression data");
    ob!(code(&NumericList::try_from(blk)) == -104 && code(&NumericList::try_from(chr)) == -104 && code(&NumericList::try_from(st)) == -104
        && code(&NumericList::try_from(non)) == -104 && code(&NumericList::try_from(suf)) == -104, "C08: NumericList accepts another element type");
    let cl = ChannelList::try_from(exp);
    ob!(cl.is_ok() == (p[0] == b'@') && (cl.is_ok() || code(&cl) == -171), "C08: ChannelList acceptance");
    ob!(code(&ChannelList::try_from(blk)) == -104 && code(&ChannelList::try_from(chr)) == -104 && code(&ChannelList::try_from(st)) == -104
        && code(&ChannelList::try_from(non)) == -104 && code(&ChannelList::try_from(suf)) == -104, "C08: ChannelList accepts another element type");
    // floats: suffix -138, non-decimal / string / block / expression -104
    ob!(code(&f32::try_from(suf)) == -138 && code(&f64::try_from(suf)) == -138, "C08: float from a suffixed literal must be -138");
    ob!(code(&f32::try_from(non)) == -104 && code(&f32::try_from(st)) == -104 && code(&f32::try_from(blk)) == -104 && code(&f32::try_from(exp)) == -104
        && code(&f64::try_from(non)) == -104 && code(&f64::try_from(st)) == -104 && code(&f64::try_from(blk)) == -104 && code(&f64::try_from(exp)) == -104,
        "C08: float accepts a non-numeric element");
    // bool: everything but decimal / character data is a type error
    ob!(code(&bool::try_from(suf)) == -104 && code(&bool::try_from(non)) == -104 && code(&bool::try_from(st)) == -104
        && code(&bool::try_from(blk)) == -104 && code(&bool::try_from(exp)) == -104, "C08: bool accepts another element type");
    Ok(())
}
