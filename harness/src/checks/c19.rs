//! C19 — channel lists and numeric lists parse to exactly the SCPI-denoted entries
//! (also C01: iterating entries and channel specs never panics).

use crate::oracles::lists::*;
use crate::{assume, ob, witness, Src, R};
use scpi::parser::expression::channel_list::{ChannelList, ChannelSpec, Token as CTok};
use scpi::parser::expression::numeric_list::{NumericList, Token as NTok};
use scpi::parser::tokenizer::{Token, Tokenizer};

fn off(base: &[u8], p: &[u8]) -> usize {
    (p.as_ptr() as usize).wrapping_sub(base.as_ptr() as usize)
}

/// one ChannelList step from an arbitrary state (remaining N bytes, first flag)
pub fn chan_step<const N: usize, S: Src>(s: &mut S) -> R {
    let buf: [u8; N] = crate::bytes::<N, S>(s);
    let first = s.bool();
    let mut cl = ChannelList { chars: buf.iter(), first };
    let r = cl.next();
    let cursor = N - cl.chars.as_slice().len();
    let want = ref_chan_step(&buf, first);
    crate::note!("C19 chan_step<{}>: rest {:?} first {} -> {:?} cursor {}, reference {:?}", N, crate::checks::show(&buf), first, r, cursor, want);
    if let Some(Err(e)) = &r {
        let c = e.get_code();
        ob!(c <= -100 && c >= -199, "C14: channel list error outside the command-error class");
    }
    witness!(matches!(want, LExpect::Entry(_)), "chan_step: an entry");
    match want {
        LExpect::Any => {}
        LExpect::End => ob!(r.is_none(), "C19: end of a channel list not recognised"),
        LExpect::Err => {
            witness!(true, "chan_step: a listed corruption");
            ob!(matches!(r, Some(Err(_))), "C19: a corrupted channel list does not produce an error where iteration reaches it");
        }
        LExpect::Entry(e) => {
            let ok = match r {
                Some(Ok(CTok::ChannelSpec(sp))) => e.kind == EKind::Spec && sp.dimension() == e.dim,
                Some(Ok(CTok::ChannelRange(a, b))) => e.kind == EKind::Range && a.dimension() == e.dim && b.dimension() == e.dim2,
                Some(Ok(CTok::PathName(p))) => e.kind == EKind::Path && off(&buf, p) == e.a && p.len() == e.b - e.a,
                _ => false,
            };
            ob!(ok, "C19: channel list entry differs from the SCPI-denoted one (kind, dimension or path text)");
            ob!(cursor == e.consumed, "C19: channel list entry boundary is wrong");
        }
    }
    Ok(())
}

/// The whole N-byte buffer is ONE channel spec text (any run of digits, signs and '!' starting with a
/// digit or sign - not necessarily well formed).  Obtain the spec through the public iterator.
fn whole_spec<'a, const N: usize, S: Src>(s: &mut S, buf: &'a [u8; N]) -> Option<ChannelSpec<'a>> {
    let (end, _, _) = spec_run(buf, 0);
    s.assume(end == N && N > 0 && buf[0] != b'!');
    #[cfg(not(kani))]
    if !(end == N && N > 0 && buf[0] != b'!') {
        return None;
    }
    let mut cl = ChannelList { chars: buf.iter(), first: true };
    match cl.next() {
        Some(Ok(CTok::ChannelSpec(sp))) => Some(sp),
        _ => None,
    }
}

/// iterate a spec: total for ANY spec text (C01); for a well-formed text the values are the numbers
/// of the text, in order, followed by None
pub fn spec_iter<const N: usize, S: Src>(s: &mut S) -> R {
    let buf: [u8; N] = crate::bytes::<N, S>(s);
    let sp = match whole_spec::<N, S>(s, &buf) {
        Some(sp) => sp,
        None => return Err("C19: a run of spec characters is not yielded as a channel spec"),
    };
    let (_, dim, ok) = spec_run(&buf, 0);
    crate::note!("C19 spec_iter<{}>: spec {:?} dimension {} well-formed {}", N, crate::checks::show(&buf), dim, ok);
    witness!(ok && dim == 2, "spec_iter: a well-formed two-dimensional spec");
    witness!(!ok, "spec_iter: a malformed spec");
    ob!(sp.dimension() == dim && sp.len() == dim, "C19: dimension count differs from the text");
    let mut it = sp.into_iter();
    let mut k = 0;
    while k < 4 {
        let v = it.next(); // must not panic, whatever the text (C01)
        if ok {
            if k < dim {
                ob!(matches!(v, Some(Ok(x)) if x as i128 == spec_value(&buf, k)), "C19: per-dimension value differs from the text");
            } else {
                ob!(v.is_none(), "C19: channel spec yields more values than dimensions");
            }
        }
        match v {
            Some(Ok(_)) => {}
            _ => break,
        }
        k += 1;
    }
    Ok(())
}

/// tuple / scalar conversions of a WELL-FORMED spec: every element is the corresponding number
pub fn spec_convert<const N: usize, const DIM: usize, S: Src>(s: &mut S) -> R {
    let buf: [u8; N] = crate::bytes::<N, S>(s);
    let sp = match whole_spec::<N, S>(s, &buf) {
        Some(sp) => sp,
        None => return Err("C19: a run of spec characters is not yielded as a channel spec"),
    };
    let (_, dim, ok) = spec_run(&buf, 0);
    assume!(s, ok);
    crate::note!("C19 spec_convert<{},{}>: spec {:?} dimension {}", N, DIM, crate::checks::show(&buf), dim);
    witness!(dim == DIM, "spec_convert: matching dimension");
    witness!(dim != DIM, "spec_convert: other dimension");
    match DIM {
        1 => {
            let r = isize::try_from(sp);
            if dim == 1 {
                ob!(matches!(r, Ok(v) if v as i128 == spec_value(&buf, 0)), "C19: isize conversion of a 1-dimensional spec");
                let u = usize::try_from(sp);
                ob!(u.is_ok() == (spec_value(&buf, 0) >= 0), "C19: usize conversion of a spec");
            } else {
                ob!(r.is_err(), "C19: scalar conversion of a multi-dimensional spec must fail");
            }
        }
        2 => {
            let r = <(isize, isize)>::try_from(sp);
            if dim == 2 {
                crate::note!("  -> {:?}", r);
                ob!(matches!(r, Ok((x, y)) if x as i128 == spec_value(&buf, 0) && y as i128 == spec_value(&buf, 1)),
                    "C19: (isize,isize) conversion does not yield the two numbers of the text");
            } else {
                ob!(r.is_err(), "C19: 2-tuple conversion of a spec of another dimension must fail");
            }
        }
        _ => {
            let r = <(isize, isize, isize)>::try_from(sp);
            if dim == 3 {
                crate::note!("  -> {:?}", r);
                ob!(matches!(r, Ok((x, y, z)) if x as i128 == spec_value(&buf, 0) && y as i128 == spec_value(&buf, 1)
                    && z as i128 == spec_value(&buf, 2)), "C19: (isize,isize,isize) conversion does not yield the three numbers of the text");
            } else {
                ob!(r.is_err(), "C19: 3-tuple conversion of a spec of another dimension must fail");
            }
        }
    }
    Ok(())
}

/// one NumericList step from an arbitrary state (remaining N bytes, first flag)
pub fn num_step<const N: usize, S: Src>(s: &mut S) -> R {
    let buf: [u8; N] = crate::bytes::<N, S>(s);
    let first = s.bool();
    // state invariant of real iteration: number reading is greedy, so after an entry (first == false)
    // the remaining text never starts with a digit
    assume!(s, first || N == 0 || !(buf[0] >= b'0' && buf[0] <= b'9'));
    let mut tk = Tokenizer::new(b"");
    tk.chars = buf.iter();
    let mut nl = NumericList { tokenizer: tk, first };
    let r = nl.next();
    let cursor = N - nl.tokenizer.chars.as_slice().len();
    let want = ref_num_step(&buf, first);
    crate::note!("C19 num_step<{}>: rest {:?} first {} -> {:?} cursor {}, reference {:?}", N, crate::checks::show(&buf), first, r, cursor, want);
    if let Some(Err(e)) = &r {
        let c = e.get_code();
        ob!(c <= -100 && c >= -199, "C14: numeric list error outside the command-error class");
    }
    witness!(matches!(want, LExpect::Entry(_)), "num_step: an entry");
    match want {
        LExpect::Any => {}
        LExpect::End => ob!(r.is_none(), "C19: end of a numeric list not recognised"),
        LExpect::Err => {
            witness!(true, "num_step: a listed corruption");
            ob!(matches!(r, Some(Err(_))), "C19: a corrupted numeric list does not produce an error where iteration reaches it");
        }
        LExpect::Entry(e) => {
            let ok = match r {
                Some(Ok(NTok::Numeric(Token::DecimalNumericProgramData(p)))) => {
                    e.kind == EKind::Numeric && off(&buf, p) == e.a && p.len() == e.b - e.a
                }
                Some(Ok(NTok::NumericRange(Token::DecimalNumericProgramData(p), Token::DecimalNumericProgramData(q)))) => {
                    e.kind == EKind::NumericRange && off(&buf, p) == e.a && p.len() == e.b - e.a && off(&buf, q) == e.a2
                        && q.len() == e.b2 - e.a2
                }
                _ => false,
            };
            ob!(ok, "C19: numeric list entry differs from the SCPI-denoted one");
            ob!(cursor == e.consumed, "C19: numeric list entry boundary is wrong");
        }
    }
    Ok(())
}

/// `ChannelList::new` / conversions from an expression token
pub fn from_token<const N: usize, S: Src>(s: &mut S) -> R {
    let buf: [u8; N] = crate::bytes::<N, S>(s);
    let cl = ChannelList::try_from(Token::ExpressionProgramData(&buf));
    let starts_at = N > 0 && buf[0] == b'@';
    witness!(starts_at, "from_token: a channel list");
    ob!(cl.is_ok() == starts_at, "C19: only an expression starting with @ is a channel list");
    if let Ok(c) = cl {
        ob!(c.first && c.chars.as_slice().len() == N - 1, "C19: channel list does not start after the @");
    }
    let nl = NumericList::try_from(Token::ExpressionProgramData(&buf));
    ob!(matches!(nl, Ok(ref l) if l.first && l.tokenizer.chars.as_slice().len() == N), "C19: numeric list from an expression token");
    ob!(matches!(ChannelList::try_from(Token::StringProgramData(&buf)), Err(e) if e.get_code() == -104), "C19/C08: non-expression accepted as channel list");
    ob!(matches!(NumericList::try_from(Token::CharacterProgramData(&buf)), Err(e) if e.get_code() == -104), "C19/C08: non-expression accepted as numeric list");
    Ok(())
}
