//! C16 — status byte and IEEE 488.2 common commands follow the 488.2 status model.
//! Every obligation is one operation from an ARBITRARY device state (inductive step).

use crate::dev::Dev;
use crate::hcall::{self, decode_nr1, P};
use crate::{assume, ob, witness, Src, R};
use arrayvec::ArrayVec;
use scpi::error::Error;
use scpi::Context;
use scpi_contrib::ieee488::common::*;
use scpi_contrib::ieee488::IEEE4882;
use scpi_contrib::scpi1999::prelude::*;

/// the status byte 488.2 / SCPI-99 define, bit by bit; `summary` as the library documents it
/// (enabled CONDITION bits, bit 15 excluded)
fn spec_stb<const Q: usize>(d: &Dev<Q>, mav: bool) -> u8 {
    let mut stb = 0u8;
    if d.errors.len() != 0 {
        stb |= 1 << 2;
    }
    if d.ques.condition & d.ques.enable & 0x7fff != 0 {
        stb |= 1 << 3;
    }
    if mav {
        stb |= 1 << 4;
    }
    if d.esr & d.ese != 0 {
        stb |= 1 << 5;
    }
    if d.oper.condition & d.oper.enable & 0x7fff != 0 {
        stb |= 1 << 7;
    }
    // MSS: at least one of the reported bits is enabled by *SRE (bit 6 of SRE is not used)
    if stb & d.sre & !(1 << 6) != 0 {
        stb |= 1 << 6;
    }
    stb
}

/// `*STB?` (and the device-side `stb()`), queue holding QL entries
pub fn stb<const QL: usize, S: Src>(s: &mut S) -> R {
    let mut d: Dev<2> = Dev::draw(s, QL);
    let mav = s.bool();
    let d0 = d.regs();
    let mut ctx = Context::default();
    ctx.mav = mav;
    let mut out: ArrayVec<u8, 16> = ArrayVec::new();
    let without_mav = d.stb();
    let res = hcall::query(&StbCommand, &mut d, &mut ctx, P::None, &mut out);
    let want = spec_stb(&d, mav);
    crate::note!("C16 stb: device {:?} mav {} -> device stb() {:#04x}, *STB? {:?} ({:?}), 488.2 value {} ({:#04x})",
        d0, mav, without_mav, core::str::from_utf8(&out), res, want, want);
    witness!(want & 0x40 != 0 && want & 0x10 != 0, "stb: MSS with MAV");
    ob!(without_mav == spec_stb(&d, false), "C16: device status byte (scpi_stb) differs from the 488.2 bit definitions");
    ob!(res.is_ok(), "C16: *STB? failed");
    ob!(decode_nr1(&out) == Some(want as u64), "C16: *STB? response differs from the 488.2 status byte");
    ob!(d.regs() == d0, "C16: reading the status byte changed a register or the queue");
    Ok(())
}

/// `*ESE` / `*SRE` (WHICH = 0 / 1), command and query form
pub fn enable<const WHICH: u8, S: Src>(s: &mut S) -> R {
    let mut d: Dev<2> = Dev::draw(s, 0);
    let write = s.bool();
    let v = s.u8();
    let pmode = s.u8() % 3;
    let p = match pmode { 0 => P::U8(v), 1 => P::None, _ => P::OutOfRange };
    let d0 = d.regs();
    let mut ctx = Context::default();
    let mut out: ArrayVec<u8, 16> = ArrayVec::new();
    let res = match (WHICH, write) {
        (0, true) => hcall::event(&EseCommand, &mut d, &mut ctx, p),
        (0, false) => hcall::query(&EseCommand, &mut d, &mut ctx, P::None, &mut out),
        (_, true) => hcall::event(&SreCommand, &mut d, &mut ctx, p),
        (_, false) => hcall::query(&SreCommand, &mut d, &mut ctx, P::None, &mut out),
    };
    crate::note!("C16 enable<{}>: write {} param {:?} from {:?} -> {:?} out {:?} res {:?}", WHICH, write, p, d0, d.regs(),
        core::str::from_utf8(&out), res);
    let mut want = d0;
    if write {
        ob!(out.is_empty(), "C16: *ESE/*SRE command produced output");
        match p {
            P::U8(x) => {
                witness!(x == 255, "enable: 255 accepted");
                ob!(res.is_ok(), "C16: *ESE/*SRE rejected a value in 0..255");
                if WHICH == 0 { want.ese = x } else { want.sre = x }
            }
            P::None => ob!(matches!(res, Err(e) if e.get_code() == -109), "C16: missing parameter not -109"),
            _ => ob!(matches!(res, Err(e) if e.get_code() == -222), "C16: out-of-range parameter not -222"),
        }
    } else {
        ob!(res.is_ok(), "C16: *ESE?/*SRE? failed");
        let reg = if WHICH == 0 { d0.ese } else { d0.sre };
        ob!(decode_nr1(&out) == Some(reg as u64), "C16: *ESE?/*SRE? does not read back the register");
    }
    ob!(d.regs() == want, "C16: *ESE/*SRE changed something other than its own register");
    Ok(())
}

/// `*CLS` with QL queued errors
pub fn cls<const QL: usize, S: Src>(s: &mut S) -> R {
    let mut d: Dev<2> = Dev::draw(s, QL);
    let d0 = d.regs();
    let mut ctx = Context::default();
    let res = hcall::event(&ClsCommand, &mut d, &mut ctx, P::None);
    let d1 = d.regs();
    crate::note!("C16 cls: {:?} -> {:?} ({:?})", d0, d1, res);
    witness!(d0.esr != 0 && d0.oper[1] != 0, "cls: something to clear");
    ob!(res.is_ok(), "C16: *CLS failed");
    ob!(d1.esr == 0, "C16: *CLS does not clear the event status register");
    ob!(d1.oper[1] == 0 && d1.ques[1] == 0, "C16: *CLS does not clear the event registers");
    ob!(d1.qlen == 0, "C16: *CLS does not clear the error queue");
    ob!(d1.ese == d0.ese && d1.sre == d0.sre && d1.oper[2] == d0.oper[2] && d1.ques[2] == d0.ques[2],
        "C16: *CLS cleared an enable register");
    ob!(d1.oper[0] == d0.oper[0] && d1.ques[0] == d0.ques[0] && d1.oper[3..] == d0.oper[3..] && d1.ques[3..] == d0.ques[3..],
        "C16: *CLS changed a condition or transition-filter register");
    Ok(())
}

/// `*OPC` / `*OPC?` with QL queued errors in a queue of capacity 2
pub fn opc<const QL: usize, S: Src>(s: &mut S) -> R {
    let mut d: Dev<2> = Dev::draw(s, QL);
    let query = s.bool();
    let d0 = d.regs();
    let mut ctx = Context::default();
    let mut out: ArrayVec<u8, 16> = ArrayVec::new();
    let res = if query {
        hcall::query(&OpcCommand, &mut d, &mut ctx, P::None, &mut out)
    } else {
        hcall::event(&OpcCommand, &mut d, &mut ctx, P::None)
    };
    let d1 = d.regs();
    crate::note!("C16 opc: query {} {:?} -> {:?} out {:?} ({:?})", query, d0, d1, core::str::from_utf8(&out), res);
    ob!(res.is_ok(), "C16: *OPC / *OPC? failed");
    let mut want = d0;
    if query {
        ob!(&out[..] == b"1", "C16: *OPC? does not answer 1");
    } else {
        witness!(d0.esr & 1 == 0, "opc: bit was clear");
        ob!(out.is_empty(), "C16: *OPC produced output");
        want.esr = d0.esr | 0x01;
        // the operation-complete event may be recorded in the queue (C13): -800, or the overflow marker
        want.qlen = if QL < 2 { QL + 1 } else { 2 };
        let last = d.errors[want.qlen - 1].get_code();
        ob!(last == -800 || (QL == 2 && last == -350), "C16: *OPC queued something other than its operation-complete event");
    }
    ob!(d1 == want, "C16: *OPC/*OPC? changed a register it must not change");
    Ok(())
}

/// `*TST?` with an arbitrary self-test outcome, `*RST`, `*WAI`
pub fn tst_rst_wai<S: Src>(s: &mut S) -> R {
    let mut d: Dev<2> = Dev::draw(s, 1);
    let which = s.u8() % 3;
    let fail = s.bool();
    let code = s.i16();
    d.tst_result = if fail { Err(Error::custom(code, b"selftest")) } else { Ok(()) };
    let d0 = d.regs();
    let mut ctx = Context::default();
    let mut out: ArrayVec<u8, 16> = ArrayVec::new();
    let res = match which {
        0 => hcall::query(&TstCommand, &mut d, &mut ctx, P::None, &mut out),
        1 => hcall::event(&RstCommand, &mut d, &mut ctx, P::None),
        _ => hcall::event(&WaiCommand, &mut d, &mut ctx, P::None),
    };
    crate::note!("C16 tst_rst_wai: which {} fail {} code {} out {:?} ({:?})", which, fail, code, core::str::from_utf8(&out), res);
    ob!(res.is_ok(), "C16: *TST?/*RST/*WAI failed");
    ob!(d.regs() == d0, "C16: *TST?/*RST/*WAI altered a status register or the queue");
    match which {
        0 => {
            witness!(fail && code < -9, "tst: negative self-test code");
            ob!(d.n_tst == 1, "C16: *TST? did not run the self test exactly once");
            let want: i16 = if fail { code } else { 0 };
            // independent signed NR1 decoder
            let (neg, digits) = if !out.is_empty() && out[0] == b'-' { (true, &out[1..]) } else { (false, &out[..]) };
            let mag = decode_nr1(digits);
            let got = mag.map(|m| if neg { -(m as i64) } else { m as i64 });
            ob!(got == Some(want as i64) && !(neg && mag == Some(0)), "C16: *TST? does not answer 0 or the self-test error code");
        }
        1 => {
            ob!(d.n_rst == 1 && out.is_empty(), "C16: *RST did not reset exactly once / produced output");
        }
        _ => {
            ob!(out.is_empty() && d.n_rst == 0 && d.n_tst == 0, "C16: *WAI had an effect");
        }
    }
    Ok(())
}

/// `*ESR?` returns the accumulated status bits and clears them (shared with C13)
pub fn esr<S: Src>(s: &mut S) -> R {
    let mut d: Dev<2> = Dev::draw(s, 1);
    let d0 = d.regs();
    let mut ctx = Context::default();
    let mut out: ArrayVec<u8, 16> = ArrayVec::new();
    let res = hcall::query(&EsrCommand, &mut d, &mut ctx, P::None, &mut out);
    crate::note!("C16 esr: {:?} -> {:?} out {:?} ({:?})", d0, d.regs(), core::str::from_utf8(&out), res);
    witness!(d0.esr > 99, "esr: three digits");
    ob!(res.is_ok(), "C13/C16: *ESR? failed");
    ob!(decode_nr1(&out) == Some(d0.esr as u64), "C13/C16: *ESR? does not return the accumulated status bits");
    let mut want = d0;
    want.esr = 0;
    ob!(d.regs() == want, "C13/C16: *ESR? does not clear exactly the event status register");
    Ok(())
}
