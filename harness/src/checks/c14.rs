//! C14 — every error code maps to the ESR bit of its IEEE 488.2 class.

use super::gen_error_variants::{N_ATTR, VARIANTS};
use crate::oracles::esr::esr_bit;
use crate::{assume, ob, witness, Src, R};
use scpi::error::{Error, ErrorCode};

/// custom errors: all 65536 numbers
pub fn custom_mask<S: Src>(s: &mut S) -> R {
    let c = s.i16();
    let e = Error::custom(c, b"x");
    crate::note!("C14 custom: code {} -> mask {:#04x}, class table {:#04x}", c, e.esr_mask(), esr_bit(c));
    witness!(c < -800, "custom: operation complete century");
    ob!(e.get_code() == c, "C14: custom error does not report its own code");
    ob!(e.esr_mask() == esr_bit(c), "C14: custom error number maps to the wrong ESR bit");
    ob!(ErrorCode::Custom(c, b"x").esr_mask() == esr_bit(c), "C14: ErrorCode::Custom maps to the wrong ESR bit");
    Ok(())
}

/// standard errors looked up by number: all 65536 numbers
pub fn lookup<S: Src>(s: &mut S) -> R {
    let c = s.i16();
    let got = ErrorCode::get_error(c);
    crate::note!("C14 lookup: get_error({}) = {:?}", c, got);
    witness!(got.is_some(), "lookup: a standard code");
    witness!(got.is_none(), "lookup: not a standard code");
    if let Some(x) = got {
        ob!(x.get_code() == c, "C14: looking a standard code up yields an error reporting another code");
        ob!(x.esr_mask() == esr_bit(c), "C14: standard error maps to the wrong ESR bit");
        ob!(Error::new(x).esr_mask() == esr_bit(c), "C14: Error::esr_mask differs from the class table");
        ob!(Error::new(x).get_code() == c, "C14: Error::get_code differs");
    }
    Ok(())
}

/// every standard variant (list regenerated from the source on every run): code and message are the ones
/// its attribute states, and looking its code up yields that same variant.
pub fn variants<S: Src>(s: &mut S) -> R {
    ob!(N_ATTR == VARIANTS.len(), "C14 harness: variant list incomplete (pregen regex missed an attribute)");
    let i = s.u8() as usize;
    assume!(s, i < VARIANTS.len());
    let (v, code, msg) = VARIANTS[i];
    crate::note!("C14 variants: #{} {:?} code {} msg {:?}", i, v, code, core::str::from_utf8(msg));
    witness!(code == -350, "variants: QueueOverflow");
    ob!(v.get_code() == code, "C14: variant reports a code other than the one declared");
    ob!(v.get_message() == msg, "C14: variant message differs from the one declared");
    ob!(ErrorCode::get_error(code) == Some(v), "C14: looking the variant's code up does not yield the variant");
    ob!(v.esr_mask() == esr_bit(code), "C14: variant maps to the wrong ESR bit");
    Ok(())
}
