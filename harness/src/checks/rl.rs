//! RL-tok — the real dispatcher (`Node::run` -> run_tokens -> exec -> handler -> Parameters ->
//! ResponseUnit) at TOKEN level: under Kani `<Tokenizer as Iterator>::next` is stubbed so that the
//! "message" is a script with one token code per byte; natively the script is spelled out as
//! message bytes and lexed by the real tokenizer.  Scripts are constrained to what the real lexer
//! can emit (`lexable`, the token-successor automaton that C04 decides on the real lexer), so every
//! counterexample replays through the public API.
//!
//! Serves C05 (order, first error aborts, hook exactly once), C06 (a handler sees exactly its
//! unit's data; arity errors), C10 (exits of the unit loop: one final NL iff output), C02 (flat
//! tree part: header -> handler / -113), C11 (message-level exhaustion), C01 (no panic).

use crate::{ob, witness, Src, R};
use arrayvec::ArrayVec;
use scpi::error::{Error, ErrorCode, Result as SResult};
use scpi::parser::tokenizer::{Token, Tokenizer};
use scpi::tree::prelude::*;

pub const COLON: u8 = 0;
pub const QUERY: u8 = 1;
pub const SEMI: u8 = 2;
pub const HSEP: u8 = 3;
pub const COMMA: u8 = 4;
pub const MN_A: u8 = 5;
pub const MN_STAR: u8 = 6; // *C
pub const MN_UNK: u8 = 7; // Q (not in the tree)
pub const NUM: u8 = 8; // 1
pub const CHR: u8 = 9; // X
pub const ERR: u8 = 10; // a byte the lexer rejects
pub const NTOK: u8 = 11;

/// Kani stub for `<Tokenizer as Iterator>::next`: one token per script byte
pub fn tokenizer_next_stub<'a>(this: &mut Tokenizer<'a>) -> Option<core::result::Result<Token<'a>, ErrorCode>>
where
    'a: 'a,
{
    let b = *this.chars.next()?;
    Some(match b {
        COLON => Ok(Token::HeaderMnemonicSeparator),
        QUERY => Ok(Token::HeaderQuerySuffix),
        SEMI => Ok(Token::ProgramMessageUnitSeparator),
        HSEP => Ok(Token::ProgramHeaderSeparator),
        COMMA => Ok(Token::ProgramDataSeparator),
        MN_A => Ok(Token::ProgramMnemonic(b"A")),
        MN_STAR => Ok(Token::ProgramMnemonic(b"*C")),
        MN_UNK => Ok(Token::ProgramMnemonic(b"Q")),
        NUM => Ok(Token::DecimalNumericProgramData(b"1")),
        CHR => Ok(Token::CharacterProgramData(b"X")),
        _ => Err(ErrorCode::SyntaxError),
    })
}

/// canonical spelling of a script as message bytes (native replay)
#[cfg(not(kani))]
pub fn spell(script: &[u8]) -> std::vec::Vec<u8> {
    let mut v = std::vec::Vec::new();
    for &t in script {
        let s: &[u8] = match t {
            COLON => b":",
            QUERY => b"?",
            SEMI => b";",
            HSEP => b" ",
            COMMA => b",",
            MN_A => b"A",
            MN_STAR => b"*C",
            MN_UNK => b"Q",
            NUM => b"1",
            CHR => b"X",
            _ => b"!",
        };
        v.extend_from_slice(s);
    }
    v
}

fn is_mn(t: u8) -> bool {
    t == MN_A || t == MN_STAR || t == MN_UNK
}
fn is_data(t: u8) -> bool {
    t == NUM || t == CHR
}

/// token-successor automaton of the real lexer: can `script` be the exact token sequence of its
/// canonical spelling?
pub fn lexable(script: &[u8]) -> bool {
    let n = script.len();
    let mut hdr = true;
    let mut common = false;
    let mut i = 0;
    while i < n {
        let t = script[i];
        if t >= NTOK {
            return false;
        }
        let prev = if i > 0 { script[i - 1] } else { 255 };
        let next = if i + 1 < n { script[i + 1] } else { 255 };
        if t == ERR {
            // an error token ends the run; the lexer checks the follower of ':' '?' and data itself
            if i + 1 != n || prev == COLON || prev == QUERY || is_data(prev) {
                return false;
            }
            i += 1;
            continue;
        }
        if t == SEMI {
            if prev == COMMA {
                return false;
            }
            hdr = true;
            common = false;
            i += 1;
            continue;
        }
        if hdr {
            match t {
                MN_A | MN_UNK => {
                    if is_mn(prev) {
                        return false; // adjacent mnemonics merge into one
                    }
                }
                MN_STAR => {
                    if prev == MN_STAR || prev == COLON {
                        return false;
                    }
                    common = true;
                }
                COLON => {
                    if common || !(next == 255 || next == MN_A || next == MN_UNK) {
                        return false;
                    }
                }
                QUERY => {
                    if !(next == 255 || next == HSEP || next == SEMI) {
                        return false;
                    }
                    hdr = false;
                }
                HSEP => {
                    if prev == HSEP || i == 0 || prev == SEMI {
                        return false; // leading white space is not modelled
                    }
                    hdr = false;
                }
                _ => return false, // ',' or data inside a header is a lexer error, not a token
            }
        } else {
            match t {
                NUM | CHR => {
                    if !(prev == HSEP || prev == COMMA) {
                        return false;
                    }
                }
                COMMA => {
                    if !(is_data(prev) || prev == HSEP) || next == COMMA || next == SEMI {
                        return false;
                    }
                }
                HSEP => {
                    if prev != QUERY {
                        return false;
                    }
                }
                _ => return false,
            }
        }
        i += 1;
    }
    true
}

/// device: logs handler calls, counts the error hook
pub struct RlDev {
    pub log: [u8; 4],
    pub n: usize,
    /// handler call index that fails with -200 (255: none)
    pub fail_at: u8,
    /// how many parameters every handler pulls, and whether as optional ones
    pub pull: u8,
    pub optional: bool,
    /// kinds of the data tokens each call was offered (2 per call)
    pub got: [[u8; 2]; 4],
    pub ngot: [u8; 4],
    pub hook_calls: u8,
    pub hook_code: i16,
}

impl RlDev {
    pub fn new(fail_at: u8, pull: u8, optional: bool) -> Self {
        RlDev { log: [0; 4], n: 0, fail_at, pull, optional, got: [[0; 2]; 4], ngot: [0; 4], hook_calls: 0, hook_code: 0 }
    }
    fn enter(&mut self, code: u8, params: &mut Parameters) -> SResult<()> {
        let me = self.n;
        if me < 4 {
            self.log[me] = code;
        }
        self.n += 1;
        let mut k = 0;
        while k < self.pull {
            let t = if self.optional { params.next_optional_token()? } else { Some(params.next_token()?) };
            if let Some(t) = t {
                if me < 4 && (k as usize) < 2 {
                    self.got[me][k as usize] = match t {
                        Token::DecimalNumericProgramData(_) => NUM,
                        Token::CharacterProgramData(_) => CHR,
                        _ => 99,
                    };
                    self.ngot[me] += 1;
                }
            }
            k += 1;
        }
        if me as u8 == self.fail_at {
            return Err(Error::new(ErrorCode::ExecutionError));
        }
        Ok(())
    }
}

impl Device for RlDev {
    fn handle_error(&mut self, err: Error) {
        self.hook_calls = self.hook_calls.saturating_add(1);
        self.hook_code = err.get_code();
    }
}

pub struct H(pub u8);

impl Command<RlDev> for H {
    fn event(&self, device: &mut RlDev, _context: &mut Context, mut params: Parameters) -> SResult<()> {
        device.enter(self.0 * 2, &mut params)
    }
    fn query(&self, device: &mut RlDev, _context: &mut Context, mut params: Parameters, mut response: ResponseUnit) -> SResult<()> {
        device.enter(self.0 * 2 + 1, &mut params)?;
        response.data(true).finish()
    }
}

const HA: H = H(0);
const HC: H = H(1);
const FLAT: [Node<'static, RlDev>; 2] = [Node::leaf(b"A", &HA), Node::leaf(b"*C", &HC)];

/// what SCPI expects of a lexable script of well-formed units on the flat tree {A, *C}
struct Expected {
    shape_ok: bool,
    code: i16, // 0 = Ok
    log: [u8; 4],
    n: usize,
    queries: usize,
    got: [[u8; 2]; 4],
    ngot: [u8; 4],
}

fn reference(script: &[u8], fail_at: u8, pull: u8, optional: bool, cap: usize) -> Expected {
    let mut e = Expected { shape_ok: true, code: 0, log: [0; 4], n: 0, queries: 0, got: [[0; 2]; 4], ngot: [0; 4] };
    let n = script.len();
    let mut out_len = 0usize;
    let mut pos = 0;
    loop {
        if pos >= n {
            break; // end of message (also after a trailing ';')
        }
        // [':'] mnemonic ['?'] [' ' data {',' data}]
        if script[pos] == COLON {
            pos += 1;
        }
        if pos >= n || !is_mn(script[pos]) {
            e.shape_ok = false;
            return e;
        }
        let mn = script[pos];
        pos += 1;
        let mut query = false;
        if pos < n && script[pos] == QUERY {
            query = true;
            pos += 1;
        }
        let mut data = [0u8; 2];
        let mut nd = 0usize;
        if pos < n && script[pos] == HSEP {
            pos += 1;
            // data list
            if pos < n && is_data(script[pos]) {
                loop {
                    if nd < 2 {
                        data[nd] = script[pos];
                    }
                    nd += 1;
                    pos += 1;
                    if pos < n && script[pos] == COMMA {
                        pos += 1;
                        if !(pos < n && is_data(script[pos])) {
                            e.shape_ok = false; // dangling comma
                            return e;
                        }
                    } else {
                        break;
                    }
                }
            }
        }
        if pos < n && script[pos] != SEMI {
            if script[pos] == ERR && nd == 0 {
                // a lexical error right after the header part: the unit never runs... unless the
                // handler was already entered; keep it simple: not a well-formed unit
            }
            e.shape_ok = false;
            return e;
        }
        if nd > 2 {
            e.shape_ok = false;
            return e;
        }
        // the unit is well formed: what must happen
        if mn == MN_UNK {
            e.code = -113;
            return e;
        }
        let id = if mn == MN_A { 0 } else { 1 };
        let me = e.n;
        if query {
            // the unit separator of the response is written before the handler runs
            let sep = if out_len > 0 { 1 } else { 0 };
            if out_len + sep > cap {
                e.code = -225;
                return e;
            }
            out_len += sep;
        }
        e.log[me] = id * 2 + if query { 1 } else { 0 };
        e.n += 1;
        // parameters: the handler pulls `pull`
        let mut k = 0usize;
        while k < pull as usize {
            if k < nd {
                e.got[me][k] = data[k];
                e.ngot[me] += 1;
            } else if !optional {
                e.code = -109;
                return e;
            }
            k += 1;
        }
        if me as u8 == fail_at {
            e.code = -200;
            return e;
        }
        if query {
            if out_len + 1 > cap {
                e.code = -225;
                return e;
            }
            out_len += 1;
            e.queries += 1;
        }
        if nd > pull as usize {
            e.code = -108;
            return e;
        }
        if pos < n {
            pos += 1; // ';'
            if pos < n && script[pos] == SEMI {
                e.shape_ok = false; // empty unit in the middle
                return e;
            }
        }
    }
    if e.queries > 0 {
        if out_len + 1 > cap {
            e.code = -225;
            return e;
        }
    }
    e
}

/// every lexable script of exactly L tokens on the flat tree, response buffer of capacity CAP
/// PULL / OPTIONAL: how many parameters every handler pulls and whether as optional ones (concrete per
/// instance: a symbolic count multiplies the dispatcher's already large state space)
pub fn flat<const L: usize, const CAP: usize, const PULL: u8, const OPTIONAL: bool, S: Src>(s: &mut S) -> R {
    let script: [u8; L] = crate::bytes::<L, S>(s);
    let fail_at = s.u8();
    let pull = PULL;
    let optional = OPTIONAL;
    s.assume(lexable(&script));
    #[cfg(not(kani))]
    if !lexable(&script) {
        return Ok(());
    }
    let root: Node<RlDev> = Node::root(&FLAT);
    let mut dev = RlDev::new(fail_at, pull, optional);
    let mut ctx = Context::default();
    let mut out: ArrayVec<u8, CAP> = ArrayVec::new();
    #[cfg(kani)]
    let res = root.run(&script, &mut dev, &mut ctx, &mut out);
    #[cfg(not(kani))]
    let res = {
        let msg = spell(&script);
        // the spelling must lex to the script, otherwise `lexable` is wrong (harness bug, not a finding)
        let mut t = Tokenizer::new(&msg);
        for &c in script.iter() {
            let got = t.next();
            let same = match (c, got) {
                (COLON, Some(Ok(Token::HeaderMnemonicSeparator)))
                | (QUERY, Some(Ok(Token::HeaderQuerySuffix)))
                | (SEMI, Some(Ok(Token::ProgramMessageUnitSeparator)))
                | (HSEP, Some(Ok(Token::ProgramHeaderSeparator)))
                | (COMMA, Some(Ok(Token::ProgramDataSeparator)))
                | (MN_A, Some(Ok(Token::ProgramMnemonic(b"A"))))
                | (MN_STAR, Some(Ok(Token::ProgramMnemonic(b"*C"))))
                | (MN_UNK, Some(Ok(Token::ProgramMnemonic(b"Q"))))
                | (NUM, Some(Ok(Token::DecimalNumericProgramData(b"1"))))
                | (CHR, Some(Ok(Token::CharacterProgramData(b"X"))))
                | (ERR, Some(Err(_))) => true,
                _ => false,
            };
            if !same {
                std::eprintln!("RL replay: the spelling {:?} does not lex to the script {:?}", crate::checks::show(&msg), script);
                s.assume(false);
                return Ok(());
            }
        }
        std::eprintln!("RL flat<{},{}>: message {:?} (script {:?}) fail_at {} pull {} optional {}", L, CAP, crate::checks::show(&msg), script, fail_at, pull, optional);
        root.run(&msg, &mut dev, &mut ctx, &mut out)
    };
    let code = match res {
        Ok(()) => 0,
        Err(e) => e.get_code(),
    };
    crate::note!("  -> result {} log {:?} (n {}) hook calls {} code {} output {:?}", code, &dev.log[..dev.n.min(4)], dev.n,
        dev.hook_calls, dev.hook_code, crate::checks::show(&out));

    // ---- C05, for EVERY lexable script
    let units = {
        let mut u = 1;
        let mut i = 0;
        while i < L {
            if script[i] == SEMI {
                u += 1;
            }
            i += 1;
        }
        u
    };
    if code == 0 {
        ob!(dev.hook_calls == 0, "C05: the error hook was invoked although the message succeeded");
    } else {
        ob!(dev.hook_calls == 1 && dev.hook_code == code, "C05: a failing message must invoke the error hook exactly once with exactly the returned error");
    }
    ob!(dev.n <= units, "C05: more handler invocations than message units");
    if (fail_at as usize) < dev.n {
        ob!(dev.n == fail_at as usize + 1 && code == -200, "C05: a handler ran after a failing one, or its error was not the one returned");
    }
    // ---- oracle for well-formed units
    let e = reference(&script, fail_at, pull, optional, CAP);
    witness!(e.shape_ok && e.code == 0 && e.queries > 0, "flat: a successful message with a query");
    witness!(e.shape_ok && (e.code == -108 || e.code == -109 || e.code == -113), "flat: an arity or header error");
    if e.shape_ok {
        ob!(code == e.code, "C02/C05/C06: result of a well-formed message differs (expected Ok, -113, -109, -108, -200 or -225 as SCPI designates)");
        ob!(dev.n == e.n, "C02/C05: the set of invoked handlers differs from the units designated by the headers");
        let mut k = 0;
        while k < e.n && k < 4 {
            ob!(dev.log[k] == e.log[k], "C02: a unit invoked another handler or another form (event/query) than its header designates");
            if e.code == 0 || k + 1 < e.n {
                ob!(dev.ngot[k] == e.ngot[k] && dev.got[k][0] == e.got[k][0] && dev.got[k][1] == e.got[k][1],
                    "C06: a handler was not offered exactly the data elements of its own unit, in order");
            }
            k += 1;
        }
        if code == 0 {
            // C10: units of the executed queries joined by ';', one NL iff some query produced output
            let want_len = if e.queries == 0 { 0 } else { 2 * e.queries };
            ob!(out.len() == want_len, "C10: response is not the executed queries' units + exactly one final NL (iff output)");
            let mut j = 0;
            while j < out.len() {
                let want = if j + 1 == out.len() { b'\n' } else if j % 2 == 0 { b'1' } else { b';' };
                ob!(out[j] == want, "C10: response framing is wrong");
                j += 1;
            }
        }
    }
    Ok(())
}
