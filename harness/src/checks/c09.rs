//! C09 — response data is well-formed and denotes exactly the value that was formatted.
//! Format with the real formatter, decode with an independent decoder and with the library's own
//! parser (Tokenizer::new_params + TryFrom<Token>).

use crate::{assume, ob, witness, Src, R};
use arrayvec::ArrayVec;
use scpi::error::{Error, ErrorCode};
use scpi::parser::format::{Arbitrary, Binary, Character, Expression, Hex, Octal};
use scpi::parser::response::ResponseData;
use scpi::parser::tokenizer::{Token, Tokenizer};

type Buf = ArrayVec<u8, 72>;
type SBuf = ArrayVec<u8, 24>;

/// independent signed decimal decoder (NR1 response data): optional '-', digits, no leading zeros
pub fn decode_dec(b: &[u8]) -> Option<i128> {
    let (neg, d) = if !b.is_empty() && b[0] == b'-' { (true, &b[1..]) } else { (false, b) };
    if d.is_empty() || d.len() > 20 || (d.len() > 1 && d[0] == b'0') {
        return None;
    }
    if d.len() <= 9 {
        // narrow accumulator: cheaper for the solver
        let mut v: u32 = 0;
        let mut i = 0;
        while i < d.len() {
            if d[i] < b'0' || d[i] > b'9' {
                return None;
            }
            v = v * 10 + (d[i] - b'0') as u32;
            i += 1;
        }
        if neg && v == 0 {
            return None;
        }
        return Some(if neg { -(v as i128) } else { v as i128 });
    }
    let mut v: i128 = 0;
    let mut i = 0;
    while i < d.len() {
        if d[i] < b'0' || d[i] > b'9' {
            return None;
        }
        v = v * 10 + (d[i] - b'0') as i128;
        i += 1;
    }
    if neg && v == 0 {
        return None;
    }
    Some(if neg { -v } else { v })
}

/// independent non-decimal decoder: "#H" / "#Q" / "#B" + digits (shifts only)
pub fn decode_radix(b: &[u8], letter: u8, bits: u32) -> Option<u128> {
    if b.len() < 3 || b[0] != b'#' || b[1] != letter {
        return None;
    }
    let mut v: u128 = 0;
    let mut i = 2;
    while i < b.len() {
        let c = b[i];
        let d = if c >= b'0' && c <= b'9' {
            (c - b'0') as u128
        } else if c >= b'A' && c <= b'F' {
            (c - b'A') as u128 + 10
        } else if c >= b'a' && c <= b'f' {
            (c - b'a') as u128 + 10
        } else {
            return None;
        };
        if d >= (1u128 << bits) {
            return None;
        }
        v = (v << bits) | d;
        i += 1;
    }
    Some(v)
}

pub trait IntR: Copy + ResponseData + for<'a> TryFrom<Token<'a>, Error = Error> + PartialEq {
    fn draw<S: Src>(s: &mut S) -> Self;
    fn wide(self) -> i128;
    fn hex(self, f: &mut Buf) -> scpi::error::Result<()>;
    fn oct(self, f: &mut Buf) -> scpi::error::Result<()>;
    fn bin(self, f: &mut Buf) -> scpi::error::Result<()>;
}
macro_rules! int_r {
    ($t:ty, $d:ident) => {
        impl IntR for $t {
            fn draw<S: Src>(s: &mut S) -> Self {
                s.$d() as $t
            }
            fn wide(self) -> i128 {
                self as i128
            }
            fn hex(self, f: &mut Buf) -> scpi::error::Result<()> {
                Hex(self).format_response_data(f)
            }
            fn oct(self, f: &mut Buf) -> scpi::error::Result<()> {
                Octal(self).format_response_data(f)
            }
            fn bin(self, f: &mut Buf) -> scpi::error::Result<()> {
                Binary(self).format_response_data(f)
            }
        }
    };
}
int_r!(u8, u8);
int_r!(i8, u8);
int_r!(u16, u16);
int_r!(i16, u16);
int_r!(u32, u32);
int_r!(i32, u32);
int_r!(u64, u64);
int_r!(i64, u64);
int_r!(usize, u64);
int_r!(isize, u64);

/// value families for the wide types (rule 3 of DESIGN.md: no multiplicative oracle over a full
/// 32/64-bit range): FAM 0 = every value; 1 = |v| < 100000; 2 = within 100000 of MIN or MAX
fn in_family<T: IntR>(v: T, fam: u8, min: i128, max: i128) -> bool {
    let w = v.wide();
    match fam {
        0 => true,
        1 => w > -100000 && w < 100000,
        _ => w > max - 100000 || w < min + 100000,
    }
}

/// decimal form: independent decoder and own parser return the value
pub fn int_decimal<T: IntR, const FAM: u8, S: Src>(s: &mut S, min: i128, max: i128) -> R {
    let v = T::draw(s);
    assume!(s, in_family(v, FAM, min, max));
    let mut out = Buf::new();
    let r = v.format_response_data(&mut out);
    crate::note!("C09 int_decimal<{}>: {} -> {:?} ({:?})", core::any::type_name::<T>(), v.wide(), core::str::from_utf8(&out), r);
    witness!(v.wide() > 99, "int_decimal: three digits or more");
    ob!(r.is_ok(), "C09: formatting an integer failed");
    ob!(decode_dec(&out) == Some(v.wide()), "C09: decimal integer response does not decode to the value");
    // The own-parser round trip follows by composition and is not re-encoded here: decode_dec accepts
    // only <NR1> texts ('-'? digit+ without leading zero), C04 decides that the lexer maps such a text
    // to DecimalNumericProgramData(exactly that text), C07 that T::try_from of it is the exact value.
    Ok(())
}

macro_rules! dec_fn {
    ($name:ident, $t:ty) => {
        pub fn $name<const FAM: u8, S: Src>(s: &mut S) -> R {
            int_decimal::<$t, FAM, S>(s, <$t>::MIN as i128, <$t>::MAX as i128)
        }
    };
}
dec_fn!(dec_u8, u8);
dec_fn!(dec_i8, i8);
dec_fn!(dec_u16, u16);
dec_fn!(dec_i16, i16);
dec_fn!(dec_u32, u32);
dec_fn!(dec_i32, i32);
dec_fn!(dec_u64, u64);
dec_fn!(dec_i64, i64);
dec_fn!(dec_usize, usize);
dec_fn!(dec_isize, isize);

/// #H / #Q / #B forms of a non-negative value (RADIX 16 / 8 / 2)
pub fn int_nondecimal<T: IntR, const RADIX: u8, S: Src>(s: &mut S) -> R {
    let v = T::draw(s);
    assume!(s, v.wide() >= 0);
    let mut out = Buf::new();
    let (r, letter, bits) = match RADIX {
        16 => (v.hex(&mut out), b'H', 4),
        8 => (v.oct(&mut out), b'Q', 3),
        _ => (v.bin(&mut out), b'B', 1),
    };
    crate::note!("C09 int_nondecimal<{},{}>: {} -> {:?} ({:?})", core::any::type_name::<T>(), RADIX, v.wide(), core::str::from_utf8(&out), r);
    witness!(v.wide() > 16, "int_nondecimal: more than one digit");
    ob!(r.is_ok(), "C09: formatting a non-decimal integer failed");
    ob!(decode_radix(&out, letter, bits) == Some(v.wide() as u128), "C09: #H/#Q/#B response does not decode to the value");
    // own-parser round trip by composition: decode_radix accepts only #H/#Q/#B + radix digits; C04 decides
    // the lexer's value of such a literal (non-decimal value equality in c04::step)
    Ok(())
}

/// booleans and the float sentinels (the non-finite values are concrete constants so that the
/// finite-float branch - lexical-core's printer - is not symbolically executed)
pub fn bool_and_sentinels<S: Src>(s: &mut S) -> R {
    let b = s.bool();
    let mut out = SBuf::new();
    witness!(b, "bool_sentinels: true");
    ob!(b.format_response_data(&mut out).is_ok() && &out[..] == if b { &b"1"[..] } else { &b"0"[..] }, "C09: bool is not 0/1");
    macro_rules! one {
        ($v:expr, $want:literal) => {{
            let mut o = SBuf::new();
            ob!($v.format_response_data(&mut o).is_ok() && &o[..] == &$want[..], "C09: NaN/infinity is not the SCPI sentinel");
        }};
    }
    one!(f32::NAN, b"9.91E+37");
    one!(-f32::NAN, b"9.91E+37");
    one!(f32::INFINITY, b"9.9E+37");
    one!(f32::NEG_INFINITY, b"-9.9E+37");
    one!(f64::NAN, b"9.91E+37");
    one!(-f64::NAN, b"9.91E+37");
    one!(f64::INFINITY, b"9.9E+37");
    one!(f64::NEG_INFINITY, b"-9.9E+37");
    Ok(())
}

/// independent decoder of <STRING RESPONSE DATA>: `b` is "..." with embedded quotes doubled and
/// un-doubles to exactly `want`
fn string_decodes_to(b: &[u8], want: &[u8]) -> bool {
    if b.len() < 2 || b[0] != b'"' || b[b.len() - 1] != b'"' {
        return false;
    }
    let inner = &b[1..b.len() - 1];
    let mut i = 0;
    let mut k = 0;
    while i < inner.len() {
        if inner[i] == b'"' {
            if i + 1 < inner.len() && inner[i + 1] == b'"' {
                i += 1;
            } else {
                return false;
            }
        }
        if k >= want.len() || want[k] != inner[i] {
            return false;
        }
        k += 1;
        i += 1;
    }
    k == want.len()
}

/// byte strings of exactly N ASCII bytes holding exactly QUOTES double quotes; M = N + 2 + QUOTES is
/// the length of the response, which makes the own-parser step a concrete-length, concrete-dispatch
/// lexer run.  QUOTES >= 1 is the witness of known finding F14.
/// OWN = false: independent decoder; OWN = true: the library's own parser.
pub fn string<const N: usize, const QUOTES: usize, const M: usize, const OWN: bool, S: Src>(s: &mut S) -> R {
    let v: [u8; N] = crate::bytes::<N, S>(s);
    let mut quotes = 0;
    let mut ascii = true;
    let mut i = 0;
    while i < N {
        if v[i] == b'"' {
            quotes += 1;
        }
        ascii &= v[i] < 0x80;
        i += 1;
    }
    assume!(s, ascii);
    assume!(s, quotes == QUOTES);
    let mut out = SBuf::new();
    let r = (&v[..]).format_response_data(&mut out);
    crate::note!("C09 string<{},{}>: {:?} -> {:?} ({:?})", N, QUOTES, crate::checks::show(&v), crate::checks::show(&out), r);
    witness!(true, "string: reached");
    ob!(r.is_ok(), "C09: formatting an ASCII string failed");
    if !OWN {
        ob!(string_decodes_to(&out, &v), "C09: string response does not decode to the original bytes (quotes must be doubled)");
        return Ok(());
    }
    // own parser: one string element spanning the whole response
    ob!(out.len() == M, "C09: string response has an unexpected length");
    let mut a = [0u8; M];
    a.copy_from_slice(&out);
    // concretise what has just been checked: the delimiters are constants again (a single lexer
    // reader is explored) and, without embedded quotes, the content is the input bytes themselves
    ob!(a[0] == b'"' && a[M - 1] == b'"', "C09: string response is not delimited by double quotes");
    a[0] = b'"';
    a[M - 1] = b'"';
    if QUOTES == 0 {
        ob!(a[1..M - 1] == v[..], "C09: string content altered");
        a[1..M - 1].copy_from_slice(&v);
    }
    match Tokenizer::new_params(&a).next() {
        Some(Ok(Token::StringProgramData(p))) => {
            ob!(p.len() == M - 2, "C09: own parser splits the string response");
            // for QUOTES >= 1 this is known finding F14: the own parser hands out the raw, still doubled text
            ob!(p == &v[..], "C09: the own parser does not return the original string (a contained double quote comes back doubled)");
        }
        _ => return Err("C09: string response is not lexed as one string element"),
    }
    Ok(())
}

/// definite-length blocks, payload of exactly N arbitrary bytes (header crosses 9 -> 10)
pub fn block<const N: usize, const M: usize, S: Src>(s: &mut S) -> R {
    let v: [u8; N] = crate::bytes::<N, S>(s);
    let mut out = SBuf::new();
    let r = Arbitrary(&v).format_response_data(&mut out);
    crate::note!("C09 block<{}>: -> {:?} ({:?})", N, crate::checks::show(&out), r);
    witness!(true, "block: reached");
    ob!(r.is_ok(), "C09: formatting a block failed");
    // independent decode: '#', digit count, length, payload
    ob!(out.len() >= 3 && out[0] == b'#' && out[1] >= b'1' && out[1] <= b'9', "C09: block header malformed");
    let nd = (out[1] - b'0') as usize;
    ob!(out.len() >= 2 + nd, "C09: block header truncated");
    let len = decode_dec(&out[2..2 + nd]);
    ob!(len == Some(N as i128), "C09: block header does not state the payload length");
    ob!(out.len() == 2 + nd + N && out[2 + nd..] == v[..], "C09: block payload differs");
    ob!(out.len() == M, "C09: block response has an unexpected length");
    let mut a = [0u8; M];
    a.copy_from_slice(&out);
    // concretise the header that has just been checked (single lexer reader, concrete lengths)
    let hdr = M - N;
    let mut h = [0u8; 4];
    h[0] = b'#';
    h[1] = b'0' + (hdr - 2) as u8;
    if hdr == 3 {
        h[2] = b'0' + N as u8;
    } else {
        h[2] = b'0' + (N / 10) as u8;
        h[3] = b'0' + (N % 10) as u8;
    }
    ob!(a[..hdr] == h[..hdr], "C09: block header bytes");
    a[..hdr].copy_from_slice(&h[..hdr]);
    a[hdr..].copy_from_slice(&v);
    match Tokenizer::new_params(&a).next() {
        Some(Ok(Token::ArbitraryBlockData(p))) => ob!(p == &v[..], "C09: own parser does not return the block payload"),
        _ => return Err("C09: block response is not lexed as one block element"),
    }
    Ok(())
}

fn chardata_ok(d: &[u8]) -> bool {
    if d.is_empty() || d.len() > 12 || !d[0].is_ascii_alphabetic() {
        return false;
    }
    let mut i = 0;
    while i < d.len() {
        if !(d[i].is_ascii_alphanumeric() || d[i] == b'_') {
            return false;
        }
        i += 1;
    }
    true
}

/// character data and expression data of exactly N bytes
pub fn char_expr<const N: usize, const M: usize, const CHAR: bool, S: Src>(s: &mut S) -> R {
    let v: [u8; N] = crate::bytes::<N, S>(s);
    let which = CHAR;
    let mut out = SBuf::new();
    if which {
        assume!(s, chardata_ok(&v));
        let r = Character(&v).format_response_data(&mut out);
        crate::note!("C09 char: {:?} -> {:?}", crate::checks::show(&v), crate::checks::show(&out));
        witness!(true, "char_expr: character");
        ob!(r.is_ok() && out[..] == v[..], "C09: character response data is not the mnemonic text");
        // own parser by composition: the text is valid <CHARACTER PROGRAM DATA> (chardata_ok), C04 decides its lexing
    } else {
        let mut ok = true;
        let mut i = 0;
        while i < N {
            let c = v[i];
            ok &= c >= 0x20 && c < 0x7f && c != b'"' && c != b'\'' && c != b';' && c != b'(' && c != b')';
            i += 1;
        }
        assume!(s, ok);
        let r = Expression(&v).format_response_data(&mut out);
        crate::note!("C09 expr: {:?} -> {:?}", crate::checks::show(&v), crate::checks::show(&out));
        witness!(true, "char_expr: expression");
        ob!(r.is_ok() && out.len() == N + 2 && out[0] == b'(' && out[N + 1] == b')' && out[1..N + 1] == v[..],
            "C09: expression response data is not (content)");
        let mut a = [0u8; M];
        a.copy_from_slice(&out);
        a[0] = b'(';
        a[M - 1] = b')';
        a[1..M - 1].copy_from_slice(&v);
        match Tokenizer::new_params(&a).next() {
            Some(Ok(t @ Token::ExpressionProgramData(_))) => {
                ob!(matches!(Expression::try_from(t), Ok(Expression(p)) if p == &v[..]), "C09: own parser does not return the expression content");
            }
            _ => return Err("C09: expression response is not lexed as expression data"),
        }
    }
    Ok(())
}

/// comma-joined lists of LEN u16 values; an empty list is an error
pub fn list<const LEN: usize, S: Src>(s: &mut S) -> R {
    let mut a: ArrayVec<u16, 3> = ArrayVec::new();
    let mut i = 0;
    while i < LEN {
        a.push(s.u16());
        i += 1;
    }
    let mut out = SBuf::new();
    let r = a.format_response_data(&mut out);
    crate::note!("C09 list<{}>: {:?} -> {:?} ({:?})", LEN, a, core::str::from_utf8(&out), r);
    witness!(true, "list: reached");
    if LEN == 0 {
        ob!(r.is_err() && out.is_empty(), "C09: an empty list must be an error and emit nothing");
        return Ok(());
    }
    ob!(r.is_ok(), "C09: formatting a list failed");
    // reference framing: the elements formatted one by one (their own well-formedness is dec_u16's
    // obligation) joined by single commas
    let mut want = SBuf::new();
    let mut k = 0;
    while k < LEN {
        if k > 0 {
            want.push(b',');
        }
        let mut one: ArrayVec<u8, 8> = ArrayVec::new();
        ob!(a[k].format_response_data(&mut one).is_ok(), "C09: formatting a list element failed");
        ob!(decode_dec(&one) == Some(a[k] as i128), "C09: list element does not decode to its value");
        let mut j = 0;
        while j < one.len() {
            want.push(one[j]);
            j += 1;
        }
        k += 1;
    }
    ob!(out.len() == want.len(), "C09: list is not the comma-joined elements (length)");
    let mut j = 0;
    while j < out.len() && j < want.len() {
        ob!(out[j] == want[j], "C09: list is not the comma-joined elements in order");
        j += 1;
    }
    Ok(())
}

static mut MSG: [u8; 3] = [0; 3];
static mut EXT: [u8; 2] = [0; 2];

/// error-queue items `code,"message"` / `code,"message;extended"`: a custom error whose message has
/// ML (<= 3) and whose extended text has XL (<= 2) symbolic printable bytes; XL = 0: no extended text
pub fn error_item<const ML: usize, const XL: usize, S: Src>(s: &mut S) -> R {
    let c = s.i16();
    let m: [u8; ML] = crate::bytes::<ML, S>(s);
    let x: [u8; XL] = crate::bytes::<XL, S>(s);
    let printable = |b: &[u8]| {
        let mut ok = true;
        let mut i = 0;
        while i < b.len() {
            ok &= b[i] >= 0x20 && b[i] < 0x7f;
            i += 1;
        }
        ok
    };
    assume!(s, printable(&m) && printable(&x));
    let (msg, ext): (&'static [u8], &'static [u8]) = unsafe {
        let mut i = 0;
        while i < ML {
            MSG[i] = m[i];
            i += 1;
        }
        let mut i = 0;
        while i < XL {
            EXT[i] = x[i];
            i += 1;
        }
        {
            let mr: &'static [u8; 3] = &*core::ptr::addr_of!(MSG);
            let xr: &'static [u8; 2] = &*core::ptr::addr_of!(EXT);
            (&mr[..ML], &xr[..XL])
        }
    };
    let e = if XL == 0 { Error::custom(c, msg) } else { Error::custom(c, msg).extended(ext) };
    let mut out = SBuf::new();
    let r = e.format_response_data(&mut out);
    crate::note!("C09 error_item<{},{}>: {:?} -> {:?} ({:?})", ML, XL, e, crate::checks::show(&out), r);
    witness!(c < -99, "error_item: negative three-digit code");
    ob!(r.is_ok(), "C09: formatting an error item failed");
    // code , string
    let mut comma = 0;
    while comma < out.len() && out[comma] != b',' {
        comma += 1;
    }
    ob!(comma < out.len(), "C09: error item has no separator");
    ob!(decode_dec(&out[..comma]) == Some(e.get_code() as i128), "C09: error item does not start with its code");
    // expected text: message, or message;extended
    let mut want = [0u8; 6];
    let mut wl = 0;
    while wl < ML {
        want[wl] = m[wl];
        wl += 1;
    }
    if XL > 0 {
        want[wl] = b';';
        wl += 1;
        let mut i = 0;
        while i < XL {
            want[wl] = x[i];
            wl += 1;
            i += 1;
        }
    }
    ob!(string_decodes_to(&out[comma + 1..], &want[..wl]),
        "C09: error item text is not a well-formed quoted string denoting message[;extended] (embedded quotes must be doubled)");
    Ok(())
}

/// every standard error message is printable ASCII without a double quote, so that formatting a
/// standard error is formatting a custom error with such a message (error_item k0)
pub fn std_messages_plain<S: Src>(s: &mut S) -> R {
    use super::gen_error_variants::VARIANTS;
    let i = s.u8() as usize;
    assume!(s, i < VARIANTS.len());
    let m = VARIANTS[i].0.get_message();
    witness!(m.len() > 30, "std_messages_plain: a long message");
    ob!(m.len() >= 1 && m.len() <= 60, "C09: standard error message length");
    let mut k = 0;
    while k < m.len() {
        ob!(m[k] >= 0x20 && m[k] < 0x7f && m[k] != b'"', "C09: a standard error message needs quoting or is not printable ASCII");
        k += 1;
    }
    Ok(())
}
