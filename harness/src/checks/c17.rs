//! C17 — numeric_value parameters resolve MIN/MAX/DEF/UP/DOWN and never leave [min,max].

use crate::oracles::mnemonic::eq_nocase;
use crate::{assume, ob, witness, Src, R};
use scpi::error::Error;
use scpi::parser::tokenizer::Token;
use scpi_contrib::scpi1999::{NumericBuilder, NumericValue};

#[derive(Clone, Copy, PartialEq, Eq, Debug)]
enum Kw {
    Max,
    Min,
    Def,
    Up,
    Down,
    None,
}

/// keyword reference: exactly the short and the long form, any case
fn keyword(d: &[u8]) -> Kw {
    if eq_nocase(d, b"MAX") || eq_nocase(d, b"MAXIMUM") {
        Kw::Max
    } else if eq_nocase(d, b"MIN") || eq_nocase(d, b"MINIMUM") {
        Kw::Min
    } else if eq_nocase(d, b"DEF") || eq_nocase(d, b"DEFAULT") {
        Kw::Def
    } else if eq_nocase(d, b"UP") {
        Kw::Up
    } else if eq_nocase(d, b"DOWN") {
        Kw::Down
    } else {
        Kw::None
    }
}

/// character data of exactly N bytes -> NumericValue<i32>
pub fn keywords<const N: usize, S: Src>(s: &mut S) -> R {
    let d: [u8; N] = crate::bytes::<N, S>(s);
    let got: Result<NumericValue<i32>, Error> = NumericValue::try_from(Token::CharacterProgramData(&d));
    let kw = keyword(&d);
    crate::note!("C17 keywords: {:?} -> {:?}, reference keyword {:?}", core::str::from_utf8(&d), got, kw);
    witness!(kw != Kw::None, "keywords: a keyword");
    let ok = match kw {
        Kw::Max => got == Ok(NumericValue::Maximum),
        Kw::Min => got == Ok(NumericValue::Minimum),
        Kw::Def => got == Ok(NumericValue::Default),
        Kw::Up => got == Ok(NumericValue::Up),
        Kw::Down => got == Ok(NumericValue::Down),
        // otherwise it converts as the underlying type: character data is not an i32
        Kw::None => matches!(got, Err(e) if e.get_code() == -104),
    };
    ob!(ok, "C17: MIN/MAX/DEF/UP/DOWN not recognised exactly in short and long form");
    Ok(())
}

/// any other element converts as the underlying numeric type
pub fn underlying<S: Src>(s: &mut S) -> R {
    let v = s.u64();
    let got: Result<NumericValue<i32>, Error> = NumericValue::try_from(Token::NonDecimalNumericProgramData(v));
    let want = i32::try_from(Token::NonDecimalNumericProgramData(v));
    let p: [u8; 2] = crate::bytes::<2, S>(s);
    let got2: Result<NumericValue<i32>, Error> = NumericValue::try_from(Token::StringProgramData(&p));
    crate::note!("C17 underlying: #H{:x} -> {:?} (i32: {:?}); string -> {:?}", v, got, want, got2);
    witness!(want.is_ok(), "underlying: a value");
    ob!(got == want.map(NumericValue::Value), "C17: numeric element does not convert as its underlying type");
    ob!(matches!(got2, Err(e) if e.get_code() == -104), "C17: a string is accepted as numeric_value");
    Ok(())
}

macro_rules! resolve_fn {
    ($name:ident, $t:ty, $draw:ident) => {
        /// NumericBuilder::finish for an arbitrary (value, min, max, default) configuration
        pub fn $name<S: Src>(s: &mut S) -> R {
            let which = s.u8();
            assume!(s, which < 6);
            let v: $t = $draw(s);
            let min: $t = $draw(s);
            let max: $t = $draw(s);
            let has_def = s.bool();
            let def: $t = $draw(s);
            let nv: NumericValue<$t> = match which {
                0 => NumericValue::Value(v),
                1 => NumericValue::Maximum,
                2 => NumericValue::Minimum,
                3 => NumericValue::Default,
                4 => NumericValue::Up,
                _ => NumericValue::Down,
            };
            let b = NumericBuilder::new(nv, max, min);
            let b = if has_def { b.default(def) } else { b };
            let got = b.finish();
            // the shorthand must agree with the builder when no default is configured
            let short = nv.finish_with(max, min);
            crate::note!("C17 resolve<{}>: {:?} min {:?} max {:?} default {:?} -> {:?}", stringify!($t), nv, min, max,
                if has_def { Some(def) } else { None }, got);
            witness!(which == 0 && got.is_ok(), "resolve: a value inside the bounds");
            witness!(which == 0 && got.is_err(), "resolve: a value outside the bounds");
            let code = |r: &Result<$t, Error>| r.as_ref().err().map(|e| e.get_code());
            match which {
                0 => {
                    let inside = v >= min && v <= max;
                    if inside {
                        ob!(matches!(got, Ok(x) if x == v), "C17: a value within the bounds is not returned as is");
                    } else {
                        ob!(code(&got) == Some(-222), "C17: a value outside [min,max] (or NaN) is not -222");
                    }
                    if let Ok(x) = got {
                        ob!(x >= min && x <= max, "C17: resolved value lies outside [min,max]");
                    }
                }
                1 => ob!(matches!(got, Ok(x) if x == max || (x != x && max != max)), "C17: MAXimum does not yield the maximum"),
                2 => ob!(matches!(got, Ok(x) if x == min || (x != x && min != min)), "C17: MINimum does not yield the minimum"),
                3 => {
                    if has_def {
                        ob!(matches!(got, Ok(x) if x == def || (x != x && def != def)), "C17: DEFault does not yield the configured default");
                    } else {
                        ob!(code(&got) == Some(-224), "C17: DEFault without a default is not an illegal-parameter error");
                    }
                }
                _ => ob!(code(&got) == Some(-224), "C17: UP/DOWN must be an illegal-parameter error"),
            }
            if which != 3 || !has_def {
                let same = match (&got, &short) {
                    (Ok(a), Ok(b)) => a == b || (a != a && b != b),
                    (Err(a), Err(b)) => a.get_code() == b.get_code(),
                    _ => false,
                };
                ob!(same, "C17: finish_with disagrees with the builder");
            }
            Ok(())
        }
    };
}

fn d_i32<S: Src>(s: &mut S) -> i32 {
    s.u32() as i32
}
fn d_u8<S: Src>(s: &mut S) -> u8 {
    s.u8()
}
fn d_f32<S: Src>(s: &mut S) -> f32 {
    s.f32()
}
fn d_f64<S: Src>(s: &mut S) -> f64 {
    s.f64()
}
resolve_fn!(resolve_i32, i32, d_i32);
resolve_fn!(resolve_u8, u8, d_u8);
resolve_fn!(resolve_f32, f32, d_f32);
resolve_fn!(resolve_f64, f64, d_f64);

/// a unit quantity (uom Time, f32) as the underlying type
pub fn resolve_time<S: Src>(s: &mut S) -> R {
    use scpi::units::uom::si::f32::Time;
    use scpi::units::uom::si::time::second;
    let v = s.f32();
    let min = s.f32();
    let max = s.f32();
    let which = s.u8();
    assume!(s, which < 3);
    let q = |x: f32| Time::new::<second>(x);
    let nv = match which {
        0 => NumericValue::Value(q(v)),
        1 => NumericValue::Maximum,
        _ => NumericValue::Minimum,
    };
    let got = nv.finish_with(q(max), q(min));
    crate::note!("C17 resolve_time: which {} v {:e} min {:e} max {:e} -> {:?}", which, v, min, max, got.as_ref().map(|t| t.value));
    witness!(which == 0 && got.is_ok(), "resolve_time: inside");
    match which {
        0 => {
            if v >= min && v <= max {
                ob!(matches!(got, Ok(x) if x.value == v), "C17: quantity within the bounds is not returned as is");
            } else {
                ob!(matches!(got, Err(e) if e.get_code() == -222), "C17: quantity outside [min,max] is not -222");
            }
        }
        1 => ob!(matches!(got, Ok(x) if x.value == max || max != max), "C17: MAXimum of a quantity"),
        _ => ob!(matches!(got, Ok(x) if x.value == min || min != min), "C17: MINimum of a quantity"),
    }
    Ok(())
}
