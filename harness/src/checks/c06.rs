//! C06 (kernel) — a handler sees exactly its own unit's parameters; wrong arity is an error.
//! `Parameters` over a token stream (Kani: token-script stub; native: the script spelled out after
//! the header `A ` and lexed by the real tokenizer), driven by a symbolic usage script.

use crate::checks::rl::*;
use crate::{ob, witness, Src, R};
use scpi::parser::parameters::Parameters;
use scpi::parser::tokenizer::{Token, Tokenizer};

/// `lexable` for a data part: the script follows `A ` (header separator already consumed)
fn lexable_params(script: &[u8]) -> bool {
    let n = script.len();
    let mut full = [0u8; 8];
    full[0] = MN_A;
    full[1] = HSEP;
    let mut i = 0;
    while i < n && i < 6 {
        full[2 + i] = script[i];
        i += 1;
    }
    lexable(&full[..2 + n])
}

fn kind(t: &Token) -> u8 {
    match t {
        Token::DecimalNumericProgramData(_) => NUM,
        Token::CharacterProgramData(_) => CHR,
        _ => 99,
    }
}

/// L tokens after the header, K = 3 calls of next_token (required) / next_optional_token
pub fn params<const L: usize, S: Src>(s: &mut S) -> R {
    let script: [u8; L] = crate::bytes::<L, S>(s);
    let calls = [s.bool(), s.bool(), s.bool()]; // true = required
    s.assume(lexable_params(&script));
    #[cfg(not(kani))]
    if !lexable_params(&script) {
        return Ok(());
    }
    #[cfg(kani)]
    let mut it = Tokenizer::new_params(&script).peekable();
    #[cfg(not(kani))]
    let msg = {
        let mut m = std::vec::Vec::from(&b"A "[..]);
        m.extend_from_slice(&spell(&script));
        m
    };
    #[cfg(not(kani))]
    let mut it = {
        let mut it = Tokenizer::new(&msg).peekable();
        it.next();
        it.next();
        it
    };
    crate::note!("C06 params<{}>: tokens {:?} calls(required?) {:?}", L, script, calls);
    let mut p = Parameters::with(&mut it);
    // reference cursor
    let mut pos = 0usize;
    let mut k = 0;
    while k < 3 {
        let required = calls[k];
        let got = if required { p.next_token().map(Some) } else { p.next_optional_token() };
        // expected
        // 0 = Some(data kind), 1 = None, 2 = Err(-109), 3 = Err(lexer error)
        let (want, want_kind) = if pos < L && script[pos] == ERR {
            (3, 0)
        } else if pos < L && (script[pos] == NUM || script[pos] == CHR) {
            pos += 1;
            (0, script[pos - 1])
        } else if pos < L && script[pos] == COMMA {
            pos += 1;
            if pos < L && (script[pos] == NUM || script[pos] == CHR) {
                pos += 1;
                (0, script[pos - 1])
            } else if pos < L && script[pos] == ERR {
                (3, 0)
            } else {
                (2, 0)
            }
        } else if required {
            (2, 0)
        } else {
            (1, 0)
        };
        crate::note!("  call {} required {} -> {:?}; expected class {} kind {}", k, required, got, want, want_kind);
        witness!(want == 0 && pos >= 2, "params: a parameter after a separator");
        witness!(want == 2, "params: missing parameter");
        match got {
            Ok(Some(t)) => {
                ob!(t.is_data(), "C01/C06: Parameters handed out a token that is not a data element");
                ob!(want == 0 && kind(&t) == want_kind, "C06: not the next data element of this unit (order, content or a following unit's element)");
            }
            Ok(None) => ob!(want == 1, "C06: an optional parameter is reported absent although one is present (or vice versa)"),
            Err(e) => {
                if want == 2 {
                    ob!(e.get_code() == -109, "C06: a missing required parameter is not -109 Missing parameter");
                } else {
                    ob!(want == 3 && e.get_code() == -102, "C06: an unexpected error / the lexer's error is not returned as is");
                }
                break;
            }
        }
        k += 1;
    }
    Ok(())
}
