//! C15 — status event registers latch filtered condition transitions until read.
//! One operation from an ARBITRARY register state against a per-bit specification
//! (identity abstraction: one inductive step covers histories of any length).

use crate::dev::{draw_reg, reg5, Dev};
use crate::hcall::{self, decode_nr1, P};
use crate::{assume, ob, witness, Src, R};
use arrayvec::ArrayVec;
use scpi::Context;
use scpi_contrib::scpi1999::prelude::*;
use scpi_contrib::scpi1999::status::{
    ConditionCommand, EnableCommand, EventCommand, NTransitionCommand, PTransitionCommand, StatPresetCommand,
};

/// per-bit latch specification
fn spec_event(old_cond: u16, new_cond: u16, ptr: u16, ntr: u16, old_event: u16) -> u16 {
    let mut ev = 0u16;
    let mut b = 0;
    while b < 16 {
        let m = 1u16 << b;
        let was = old_cond & m != 0;
        let is = new_cond & m != 0;
        let rising = !was && is;
        let falling = was && !is;
        let latched = old_event & m != 0;
        if latched || (rising && ptr & m != 0) || (falling && ntr & m != 0) {
            ev |= m;
        }
        b += 1;
    }
    ev
}

/// set_condition / set_condition_bits / clear_condition_bits / clear_event / preset
pub fn register_ops<S: Src>(s: &mut S) -> R {
    let r0 = draw_reg(s);
    let op = s.u8();
    let arg = s.u16();
    assume!(s, op < 5);
    let mut r = r0;
    let new_cond = match op {
        0 => {
            r.set_condition(arg);
            arg
        }
        1 => {
            r.set_condition_bits(arg);
            r0.condition | arg
        }
        2 => {
            r.clear_condition_bits(arg);
            r0.condition & !arg
        }
        3 => {
            r.clear_event();
            r0.condition
        }
        _ => {
            r.preset();
            r.condition
        }
    };
    crate::note!("C15 register_ops: op {} arg {:#06x} from {:?} -> {:?}", op, arg, r0, r);
    witness!(op == 0 && r.event != r0.event, "register_ops: a transition is latched");
    match op {
        0 | 1 | 2 => {
            ob!(r.condition == new_cond, "C15: condition register not updated to the new value");
            ob!(r.event == spec_event(r0.condition, new_cond, r0.ptr_filter, r0.ntr_filter, r0.event),
                "C15: event register is not the per-bit latch of filtered transitions");
            ob!(r.enable == r0.enable && r.ptr_filter == r0.ptr_filter && r.ntr_filter == r0.ntr_filter,
                "C15: a condition update changed enable or filter registers");
        }
        3 => {
            ob!(r.event == 0, "C15: clear_event leaves event bits");
            ob!(r.condition == r0.condition && r.enable == r0.enable && r.ptr_filter == r0.ptr_filter
                && r.ntr_filter == r0.ntr_filter, "C15: clear_event changed another register");
        }
        _ => {
            ob!(r.enable == 0 && r.ptr_filter == 0xffff && r.ntr_filter == 0, "C15: PRESet values wrong");
            ob!(r.event == r0.event, "C15: PRESet changed the event register");
        }
    }
    // the summary the library documents: any enabled condition bit (bit 15 excluded)
    ob!(r.get_summary() == ((r.condition & r.enable & 0x7fff) != 0), "C15: summary is not 'an enabled condition bit'");
    Ok(())
}

/// The five commands of a register set + STATus:PRESet, called directly from an arbitrary device.
/// `QUES = false`: OPERation, `true`: QUEStionable.
pub fn commands<const QUES: bool, S: Src>(s: &mut S) -> R {
    let mut d: Dev<2> = Dev::draw(s, 0);
    let which = s.u8();
    let write = s.bool();
    let v = s.u16();
    let pmode = s.u8();
    assume!(s, which < 6);
    let d0 = d.clone();
    let mut ctx = Context::default();
    let mut out: ArrayVec<u8, 16> = ArrayVec::new();
    let p = if pmode & 1 == 0 { P::U16(v) } else if pmode & 2 == 0 { P::None } else { P::OutOfRange };
    macro_rules! go {
        ($reg:ty) => {{
            match (which, write) {
                (0, _) => hcall::query(&EventCommand::<$reg>::new(), &mut d, &mut ctx, P::None, &mut out),
                (1, _) => hcall::query(&ConditionCommand::<$reg>::new(), &mut d, &mut ctx, P::None, &mut out),
                (2, true) => hcall::event(&EnableCommand::<$reg>::new(), &mut d, &mut ctx, p),
                (2, false) => hcall::query(&EnableCommand::<$reg>::new(), &mut d, &mut ctx, P::None, &mut out),
                (3, true) => hcall::event(&NTransitionCommand::<$reg>::new(), &mut d, &mut ctx, p),
                (3, false) => hcall::query(&NTransitionCommand::<$reg>::new(), &mut d, &mut ctx, P::None, &mut out),
                (4, true) => hcall::event(&PTransitionCommand::<$reg>::new(), &mut d, &mut ctx, p),
                (4, false) => hcall::query(&PTransitionCommand::<$reg>::new(), &mut d, &mut ctx, P::None, &mut out),
                _ => hcall::event(&StatPresetCommand, &mut d, &mut ctx, P::None),
            }
        }};
    }
    let res = if QUES { go!(Questionable) } else { go!(Operation) };
    let (mine0, mine, other0, other) = if QUES {
        (reg5(&d0.ques), reg5(&d.ques), reg5(&d0.oper), reg5(&d.oper))
    } else {
        (reg5(&d0.oper), reg5(&d.oper), reg5(&d0.ques), reg5(&d.ques))
    };
    crate::note!("C15 commands(ques={}): which {} write {} param {:?}: {:?} -> {:?}, response {:?}, result {:?}",
        QUES, which, write, p, mine0, mine, core::str::from_utf8(&out), res);
    // frame: nothing outside this register set changes (PRESet: both sets are preset)
    ob!(d.esr == d0.esr && d.ese == d0.ese && d.sre == d0.sre && d.errors.len() == d0.errors.len(),
        "C15: a status-register command changed ESR/ESE/SRE or the error queue");
    let is_query = which < 2 || (which < 5 && !write);
    if which == 5 {
        ob!(res.is_ok(), "C15: STATus:PRESet failed");
        for (r0, r) in [(mine0, mine), (other0, other)] {
            ob!(r[2] == 0 && r[3] == 0 && r[4] == 0xffff, "C15: PRESet must give enable 0, NTR 0, PTR all ones");
            ob!(r[1] == r0[1], "C15: PRESet changed an event register");
        }
        ob!(out.is_empty(), "C15: PRESet produced output");
        return Ok(());
    }
    ob!(other == other0, "C15: command changed the other register set");
    if is_query {
        ob!(res.is_ok(), "C15: register query failed");
        let reported = decode_nr1(&out);
        // [cond, event, enable, ntr, ptr]
        let idx = match which { 0 => 1, 1 => 0, 2 => 2, 3 => 3, _ => 4 };
        witness!(which == 0 && mine0[1] & 0x7fff != 0, "commands: event register read with bits set");
        ob!(reported == Some((mine0[idx] & 0x7fff) as u64), "C15: query does not report the register with bit 15 clear");
        if which == 0 {
            ob!(mine[1] == 0, "C15: reading the event register does not clear it");
            ob!(mine[0] == mine0[0] && mine[2..] == mine0[2..], "C15: reading the event register changed another register");
        } else {
            ob!(mine == mine0, "C15: a non-destructive query changed the register set");
        }
    } else {
        let idx = match which { 2 => 2, 3 => 3, _ => 4 };
        ob!(out.is_empty(), "C15: a register write produced output");
        match p {
            P::U16(x) => {
                witness!(x > 0x8000, "commands: write with bit 15 set");
                ob!(res.is_ok(), "C15: register write failed");
                ob!(mine[idx] == x, "C15: enable/filter register does not hold what was written");
                let mut k = 0;
                while k < 5 {
                    ob!(k == idx || mine[k] == mine0[k], "C15: register write changed another register");
                    k += 1;
                }
            }
            P::None => {
                ob!(matches!(res, Err(e) if e.get_code() == -109), "C15: missing parameter not reported as -109");
                ob!(mine == mine0, "C15: failed write changed the register set");
            }
            _ => {
                ob!(matches!(res, Err(e) if e.get_code() == -222), "C15: out-of-range parameter not reported as -222");
                ob!(mine == mine0, "C15: failed write changed the register set");
            }
        }
    }
    Ok(())
}
