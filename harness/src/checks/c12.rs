//! C12 — the error/event queue is a bounded FIFO whose overflow is marked by -350.
//! One operation from an arbitrary queue content against the sequence specification.

use crate::{assume, ob, witness, Src, R};
use arrayvec::ArrayVec;
use scpi::error::{Error, ErrorCode, ErrorQueue};

/// an arbitrary error: custom with any number (with or without extended text) or a standard one
pub fn draw_error<S: Src>(s: &mut S) -> Error {
    let kind = s.u8() & 3;
    let c = s.i16();
    match kind {
        0 => Error::custom(c, b"m"),
        1 => Error::custom(c, b"m").extended(b"x"),
        2 => Error::new(ErrorCode::QueueOverflow),
        _ => Error::new(ErrorCode::SyntaxError).extended(b"x"),
    }
}

/// structural equality without memcmp loops over the message text
pub fn same(a: &Error, b: &Error) -> bool {
    a.get_code() == b.get_code()
        && a.get_extended().is_some() == b.get_extended().is_some()
        && a.get_message().len() == b.get_message().len()
        && a.get_message().as_ptr() == b.get_message().as_ptr()
}

fn is_overflow_marker(e: &Error) -> bool {
    e.get_code() == -350 && e.get_extended().is_none()
}

/// `ArrayErrorQueue<N>` holding exactly L (<= N) arbitrary errors, one arbitrary operation.
pub fn array_step<const N: usize, const L: usize, S: Src>(s: &mut S) -> R {
    let mut model: [Error; N] = [Error::new(ErrorCode::NoError); N];
    let mut q: ArrayVec<Error, N> = ArrayVec::new();
    let mut i = 0;
    while i < L {
        let e = draw_error(s);
        model[i] = e;
        q.push(e);
        i += 1;
    }
    let op = s.u8();
    assume!(s, op < 3);
    let e = draw_error(s);
    crate::note!("C12 array_step<N={},L={}>: queue {:?} op {} arg {:?}", N, L, q, op, e);
    ob!(q.num_errors() == L && ErrorQueue::is_empty(&q) == (L == 0), "C12: length / is_empty misreported");
    match op {
        0 => {
            q.push_back_error(e);
            witness!(true, "array_step: push");
            if L < N {
                ob!(q.num_errors() == L + 1, "C12: push on a non-full queue did not grow it by one");
                let mut k = 0;
                while k < L {
                    ob!(same(&q[k], &model[k]), "C12: push changed an older entry");
                    k += 1;
                }
                ob!(same(&q[L], &e), "C12: pushed error is not the newest entry");
            } else {
                ob!(q.num_errors() == N, "C12: a full queue changed its length on push");
                let mut k = 0;
                while k + 1 < N {
                    ob!(same(&q[k], &model[k]), "C12: overflow disturbed one of the N-1 older entries");
                    k += 1;
                }
                ob!(is_overflow_marker(&q[N - 1]), "C12: newest retained position does not read -350 after overflow");
            }
        }
        1 => {
            let got = q.pop_front_error();
            if L == 0 {
                ob!(got.is_none() && q.num_errors() == 0, "C12: pop on an empty queue");
            } else {
                ob!(matches!(got, Some(g) if same(&g, &model[0])), "C12: pop did not return the oldest entry");
                ob!(q.num_errors() == L - 1, "C12: pop did not shrink the queue by one");
                let mut k = 0;
                while k + 1 < L {
                    ob!(same(&q[k], &model[k + 1]), "C12: pop reordered or changed the remaining entries");
                    k += 1;
                }
            }
        }
        _ => {
            q.clear_errors();
            ob!(q.num_errors() == 0 && ErrorQueue::is_empty(&q), "C12: clear left entries");
        }
    }
    ob!(q.num_errors() <= N, "C12: queue holds more than its capacity");
    Ok(())
}

/// `VecErrorQueue` holding exactly L arbitrary errors, one arbitrary operation.
#[cfg(feature = "full")]
pub fn vec_step<const L: usize, S: Src>(s: &mut S) -> R {
    let mut model: [Error; 8] = [Error::new(ErrorCode::NoError); 8];
    let mut q: std::vec::Vec<Error> = std::vec::Vec::new();
    let mut i = 0;
    while i < L {
        let e = draw_error(s);
        model[i] = e;
        q.push(e);
        i += 1;
    }
    let op = s.u8();
    assume!(s, op < 3);
    let e = draw_error(s);
    crate::note!("C12 vec_step<L={}>: queue {:?} op {} arg {:?}", L, q, op, e);
    ob!(q.num_errors() == L && ErrorQueue::is_empty(&q) == (L == 0), "C12: length / is_empty misreported");
    match op {
        0 => {
            q.push_back_error(e);
            witness!(true, "vec_step: push");
            ob!(q.num_errors() == L + 1, "C12: push did not grow the queue by one");
            let mut k = 0;
            while k < L {
                ob!(same(&q[k], &model[k]), "C12: push changed an older entry");
                k += 1;
            }
            ob!(same(&q[L], &e), "C12: pushed error is not the newest entry");
        }
        1 => {
            let got = q.pop_front_error();
            if L == 0 {
                ob!(got.is_none() && q.num_errors() == 0, "C12: pop on an empty queue");
            } else {
                ob!(matches!(got, Some(g) if same(&g, &model[0])), "C12: pop did not return the oldest entry");
                ob!(q.num_errors() == L - 1, "C12: pop did not shrink the queue by one");
                let mut k = 0;
                while k + 1 < L {
                    ob!(same(&q[k], &model[k + 1]), "C12: pop reordered or changed the remaining entries");
                    k += 1;
                }
            }
        }
        _ => {
            q.clear_errors();
            ob!(q.num_errors() == 0 && ErrorQueue::is_empty(&q), "C12: clear left entries");
        }
    }
    core::mem::forget(q);
    Ok(())
}
