//! Obligations, one module per property.
pub mod c03;
pub mod c04;
pub mod c06;
pub mod c07;
pub mod c08;
pub mod c09;
pub mod c10;
pub mod c11;
pub mod c12;
pub mod c13;
pub mod c14;
pub mod c15;
pub mod c16;
pub mod c17;
#[cfg(feature = "full")]
pub mod c18;
pub mod c19;
pub mod c20;
pub mod rl;
pub mod gen_error_variants;

/// Shortest round-trip decimal literal of a float in a spelling the SCPI lexer accepts as <NRf>.
#[cfg(not(kani))]
pub fn literal_f64(v: f64) -> std::string::String {
    if v == f64::INFINITY {
        "1e999".into()
    } else if v == f64::NEG_INFINITY {
        "-1e999".into()
    } else {
        std::format!("{:e}", v)
    }
}

#[cfg(not(kani))]
pub fn literal_f32(v: f32) -> std::string::String {
    if v == f32::INFINITY {
        "1e999".into()
    } else if v == f32::NEG_INFINITY {
        "-1e999".into()
    } else {
        std::format!("{:e}", v)
    }
}

#[cfg(not(kani))]
mod registry;
#[cfg(not(kani))]
pub use registry::registry;

/// printable rendering of bytes for notes
#[cfg(not(kani))]
pub fn show(b: &[u8]) -> std::string::String {
    let mut s = std::string::String::new();
    for &c in b {
        if c >= 0x20 && c < 0x7f && c != b'\\' {
            s.push(c as char);
        } else {
            s.push_str(&std::format!("\\x{:02x}", c));
        }
    }
    s
}

/// Decimal literals that denote exactly the float `v` (an f32 value when `single`) under correct
/// rounding: the shortest round-trip spelling, plus - for moderate magnitudes - a long literal just
/// above the lower and one just below the upper boundary of `v`'s rounding interval.
#[cfg(not(kani))]
pub fn spellings(v: f64, single: bool) -> std::vec::Vec<std::string::String> {
    let mut out = std::vec::Vec::new();
    let short = if single { std::format!("{:e}", v as f32) } else { std::format!("{:e}", v) };
    out.push(short.replace("inf", "1e999"));
    let a = v.abs();
    if !single || !v.is_finite() || a < 1e-10 || a > 1e15 {
        return out;
    }
    let f = v as f32;
    let bits = f.to_bits() & 0x7fff_ffff;
    let mag = f32::from_bits(bits);
    let lo = f32::from_bits(bits - 1) as f64;
    let hi = f32::from_bits(bits + 1) as f64;
    let lower_mid = (lo + mag as f64) / 2.0; // exact in f64
    let upper_mid = (mag as f64 + hi) / 2.0;
    let sign = if v < 0.0 { "-" } else { "" };
    // exact decimal expansions (f64 values of this magnitude have < 100 fractional digits)
    let exact = |x: f64| {
        let s = std::format!("{:.100}", x);
        let s = s.trim_end_matches('0').to_string();
        s
    };
    let l = exact(lower_mid);
    if l.contains('.') && !l.ends_with('.') {
        out.push(std::format!("{}{}1", sign, l)); // just above the lower boundary
    }
    let u = exact(upper_mid);
    if u.contains('.') && !u.ends_with('.') {
        // decrement the last (non-zero) digit and append 9s: just below the upper boundary
        let mut b = u.into_bytes();
        let n = b.len();
        b[n - 1] -= 1;
        let mut t = std::string::String::from_utf8(b).unwrap();
        t.push_str("9999");
        out.push(std::format!("{}{}", sign, t));
    }
    out
}
