//! Obligations, one module per property.
pub mod c03;
pub mod c04;
pub mod c06;
pub mod c07;
pub mod c08;
pub mod c09;
pub mod c10;
pub mod c11;
pub mod c12;
pub mod c13;
pub mod c14;
pub mod c15;
pub mod c16;
pub mod c17;
#[cfg(feature = "full")]
pub mod c18;
pub mod c19;
pub mod c20;
pub mod rl;
pub mod gen_error_variants;

/// Shortest round-trip decimal literal of a float in a spelling the SCPI lexer accepts as <NRf>.
#[cfg(not(kani))]
pub fn literal_f64(v: f64) -> std::string::String {
    if v == f64::INFINITY {
        "1e999".into()
    } else if v == f64::NEG_INFINITY {
        "-1e999".into()
    } else {
        std::format!("{:e}", v)
    }
}

#[cfg(not(kani))]
pub fn literal_f32(v: f32) -> std::string::String {
    if v == f32::INFINITY {
        "1e999".into()
    } else if v == f32::NEG_INFINITY {
        "-1e999".into()
    } else {
        std::format!("{:e}", v)
    }
}

#[cfg(not(kani))]
mod registry;
#[cfg(not(kani))]
pub use registry::registry;

/// printable rendering of bytes for notes
#[cfg(not(kani))]
pub fn show(b: &[u8]) -> std::string::String {
    let mut s = std::string::String::new();
    for &c in b {
        if c >= 0x20 && c < 0x7f && c != b'\\' {
            s.push(c as char);
        } else {
            s.push_str(&std::format!("\\x{:02x}", c));
        }
    }
    s
}
