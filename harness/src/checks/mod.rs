//! Obligations, one module per property.
pub mod c07;

/// Shortest round-trip decimal literal of a float in a spelling the SCPI lexer accepts as <NRf>.
#[cfg(not(kani))]
pub fn literal_f64(v: f64) -> std::string::String {
    if v == f64::INFINITY {
        "1e999".into()
    } else if v == f64::NEG_INFINITY {
        "-1e999".into()
    } else {
        std::format!("{:e}", v)
    }
}

#[cfg(not(kani))]
pub fn literal_f32(v: f32) -> std::string::String {
    if v == f32::INFINITY {
        "1e999".into()
    } else if v == f32::NEG_INFINITY {
        "-1e999".into()
    } else {
        std::format!("{:e}", v)
    }
}

/// name → obligation function, for the native replayer (names equal the Kani harness names)
#[cfg(not(kani))]
pub fn registry() -> std::vec::Vec<(&'static str, fn(&mut crate::Replay) -> crate::R)> {
    use crate::Replay;
    let mut v: std::vec::Vec<(&'static str, fn(&mut Replay) -> crate::R)> = std::vec::Vec::new();
    macro_rules! reg {
        ($n:literal, $f:expr) => {
            v.push(($n, $f));
        };
    }
    reg!("c07_q_kernel_u8", c07::kernel::<u8, Replay>);
    reg!("c07_q_kernel_i8", c07::kernel::<i8, Replay>);
    reg!("c07_q_kernel_u16", c07::kernel::<u16, Replay>);
    reg!("c07_q_kernel_i16", c07::kernel::<i16, Replay>);
    reg!("c07_q_kernel_u32", c07::kernel::<u32, Replay>);
    reg!("c07_q_kernel_i32", c07::kernel::<i32, Replay>);
    reg!("c07_q_kernel_u64", c07::kernel::<u64, Replay>);
    reg!("c07_q_kernel_i64", c07::kernel::<i64, Replay>);
    reg!("c07_q_kernel_usize", c07::kernel::<usize, Replay>);
    reg!("c07_q_kernel_isize", c07::kernel::<isize, Replay>);
    v
}
