//! C13 — every failed message is queued once, flagged in ESR, and read back in order.
//! Kernel obligations: one step from an arbitrary device wired as documented.

use crate::checks::c12::{draw_error, same};
use crate::dev::Dev;
use crate::hcall::{self, decode_nr1, P};
use crate::oracles::esr::esr_bit;
use crate::{assume, ob, witness, Src, R};
use arrayvec::ArrayVec;
use scpi::error::{Error, ErrorCode};
use scpi::{Context, Device};
use scpi_contrib::scpi1999::system::error::*;

/// `Device::handle_error` (= `push_error` on the documented wiring) with QL errors queued, capacity 2
pub fn push_error<const QL: usize, S: Src>(s: &mut S) -> R {
    let mut d: Dev<2> = Dev::draw(s, QL);
    let e = draw_error(s);
    let d0 = d.clone();
    d.handle_error(e);
    crate::note!("C13 push_error: {:?} queue {:?} + {:?} -> {:?} queue {:?}", d0.regs(), d0.errors, e, d.regs(), d.errors);
    witness!(esr_bit(e.get_code()) == 0x20, "push_error: a command error");
    let mut want = d0.regs();
    want.esr = d0.esr | esr_bit(e.get_code());
    want.qlen = if QL < 2 { QL + 1 } else { 2 };
    ob!(d.regs() == want, "C13: a failed message must set exactly the ESR bit of its error class and queue one item");
    let mut k = 0;
    while k < QL && k + 1 < 2 {
        ob!(same(&d.errors[k], &d0.errors[k]), "C13: queueing an error disturbed an older item");
        k += 1;
    }
    if QL < 2 {
        ob!(same(&d.errors[QL], &e), "C13: the queued item is not the message's error");
    } else {
        ob!(d.errors[1].get_code() == -350, "C13: overflow is not marked by -350");
    }
    Ok(())
}

/// independent decoder of `<code>,"<message>"`: returns (code, message bytes)
fn decode_item(b: &[u8]) -> Option<(i64, &[u8])> {
    let mut i = 0;
    let neg = i < b.len() && b[i] == b'-';
    if neg {
        i += 1;
    }
    let start = i;
    while i < b.len() && b[i] >= b'0' && b[i] <= b'9' {
        i += 1;
    }
    let mag = decode_nr1(&b[start..i])?;
    if neg && mag == 0 {
        return None;
    }
    if i + 2 > b.len() || b[i] != b',' || b[i + 1] != b'"' || b[b.len() - 1] != b'"' || b.len() < i + 3 {
        return None;
    }
    let code = if neg { -(mag as i64) } else { mag as i64 };
    Some((code, &b[i + 2..b.len() - 1]))
}

/// `SYSTem:ERRor[:NEXT]?` with QL queued custom errors of arbitrary number
pub fn next<const QL: usize, S: Src>(s: &mut S) -> R {
    let mut d: Dev<3> = Dev::draw(s, QL);
    let d0 = d.clone();
    let mut ctx = Context::default();
    let mut out: ArrayVec<u8, 32> = ArrayVec::new();
    let res = hcall::query(&SystErrNextCommand, &mut d, &mut ctx, P::None, &mut out);
    crate::note!("C13 next<{}>: queue {:?} -> response {:?} ({:?}), queue {:?}", QL, d0.errors, core::str::from_utf8(&out), res, d.errors);
    witness!(QL == 0 || d0.errors[0].get_code() < -99, "next: a three-digit negative code");
    ob!(res.is_ok(), "C13: SYST:ERR? failed");
    let item = decode_item(&out);
    let mut want = d0.regs();
    if QL == 0 {
        ob!(matches!(item, Some((0, m)) if m == b"No error"), "C13: SYST:ERR? on an empty queue does not answer 0,'No error'");
    } else {
        want.qlen = QL - 1;
        ob!(matches!(item, Some((c, m)) if c == d0.errors[0].get_code() as i64 && m == b"queued"),
            "C13: SYST:ERR? does not return the oldest unread item as code,'message'");
        let mut k = 0;
        while k + 1 < QL {
            ob!(same(&d.errors[k], &d0.errors[k + 1]), "C13: SYST:ERR? did not remove exactly the oldest item");
            k += 1;
        }
    }
    ob!(d.regs() == want, "C13: SYST:ERR? changed a status register or the wrong number of queue items");
    Ok(())
}

/// `SYSTem:ERRor:COUNt?`
pub fn count<const QL: usize, S: Src>(s: &mut S) -> R {
    let mut d: Dev<3> = Dev::draw(s, QL);
    let d0 = d.clone();
    let mut ctx = Context::default();
    let mut out: ArrayVec<u8, 32> = ArrayVec::new();
    let res = hcall::query(&SystErrCountCommand, &mut d, &mut ctx, P::None, &mut out);
    crate::note!("C13 count<{}>: response {:?} ({:?})", QL, core::str::from_utf8(&out), res);
    witness!(true, "count: reached");
    ob!(res.is_ok() && decode_nr1(&out) == Some(QL as u64), "C13: SYST:ERR:COUN? does not return the number of unread items");
    ob!(d.regs() == d0.regs(), "C13: SYST:ERR:COUN? changed the device");
    let mut k = 0;
    while k < QL {
        ob!(same(&d.errors[k], &d0.errors[k]), "C13: SYST:ERR:COUN? changed the queue");
        k += 1;
    }
    Ok(())
}

/// `SYSTem:ERRor:COUNt?` on a device whose queue reports an ARBITRARY number of unread items
/// (any queue implementation, abstracted to its length; < 100000 so that the decimal decoder stays
/// within the solver's reach)
pub fn count_any<S: Src>(s: &mut S) -> R {
    let mut d: Dev<3> = Dev::draw(s, 0);
    let n = s.u32() as usize;
    assume!(s, n < 100000);
    d.fake_count = Some(n);
    let d0 = d.regs();
    let mut ctx = Context::default();
    let mut out: ArrayVec<u8, 32> = ArrayVec::new();
    let res = hcall::query(&SystErrCountCommand, &mut d, &mut ctx, P::None, &mut out);
    crate::note!("C13 count_any: {} unread items -> response {:?} ({:?})", n, core::str::from_utf8(&out), res);
    witness!(n > 255, "count_any: more than 255 unread items");
    ob!(res.is_ok() && decode_nr1(&out) == Some(n as u64), "C13: SYST:ERR:COUN? does not return the number of unread items");
    ob!(d.regs() == d0, "C13: SYST:ERR:COUN? changed the device");
    Ok(())
}

/// `SYSTem:ERRor:ALL?` with QL queued errors whose numbers are three-digit negative ones
/// (-999..=-100, every SCPI-defined class), so that every item has the fixed width of
/// `-ddd,"queued"` and the response is compared at fixed positions
pub fn all<const QL: usize, S: Src>(s: &mut S) -> R {
    let mut d: Dev<3> = Dev::draw(s, QL);
    let mut k = 0;
    while k < QL {
        let c = d.errors[k].get_code();
        assume!(s, c >= -999 && c <= -100);
        k += 1;
    }
    let d0 = d.clone();
    let mut ctx = Context::default();
    let mut out: ArrayVec<u8, 48> = ArrayVec::new();
    let res = hcall::query(&SystErrAllCommand, &mut d, &mut ctx, P::None, &mut out);
    crate::note!("C13 all<{}>: queue {:?} -> response {:?} ({:?})", QL, d0.errors, core::str::from_utf8(&out), res);
    witness!(true, "all: reached");
    ob!(res.is_ok(), "C13: SYST:ERR:ALL? failed");
    let mut want = d0.regs();
    want.qlen = 0;
    ob!(d.regs() == want, "C13: SYST:ERR:ALL? must empty the queue and change nothing else");
    if QL == 0 {
        ob!(matches!(decode_item(&out), Some((0, m)) if m == b"No error"), "C13: SYST:ERR:ALL? on an empty queue");
        return Ok(());
    }
    const W: usize = 13; // -ddd,"queued"
    ob!(out.len() == W * QL + (QL - 1), "C13: SYST:ERR:ALL? response has the wrong length");
    let mut k = 0;
    while k < QL {
        let o = k * (W + 1);
        let it = &out[o..o + W];
        let c = d0.errors[k].get_code() as i32;
        let digits_ok = it[0] == b'-'
            && (it[1] - b'0') as i32 * 100 + (it[2] - b'0') as i32 * 10 + (it[3] - b'0') as i32 == -c
            && it[1] >= b'1' && it[1] <= b'9' && it[2] >= b'0' && it[2] <= b'9' && it[3] >= b'0' && it[3] <= b'9';
        ob!(digits_ok, "C13: SYST:ERR:ALL? does not list the unread items in order");
        ob!(it[4] == b',' && it[5] == b'"' && it[6] == b'q' && it[7] == b'u' && it[8] == b'e' && it[9] == b'u'
            && it[10] == b'e' && it[11] == b'd' && it[12] == b'"', "C13: SYST:ERR:ALL? item is not code,'message'");
        if k + 1 < QL {
            ob!(out[o + W] == b',', "C13: SYST:ERR:ALL? items are not comma separated");
        }
        k += 1;
    }
    Ok(())
}

/// the default of an empty queue item is `0,"No error"`
pub fn default_error<S: Src>(_s: &mut S) -> R {
    let e = Error::default();
    witness!(true, "default_error: reached");
    ob!(e.get_code() == 0 && e.get_message() == b"No error" && e == Error::new(ErrorCode::NoError), "C13: default error is not 0,'No error'");
    Ok(())
}
