//! C04 — lexing is faithful to IEEE 488.2 section 7 (also serves C01: no panic / progress, and
//! C14: class of the errors the lexer raises).
//! One lexer step from an arbitrary state, differential against the reference step.

use crate::oracles::lexer::{ref_step, Expect, Kind};
use crate::{ob, witness, Src, R};
use scpi::parser::tokenizer::{Token, Tokenizer};

/// representative byte(s) of a lexical class (0 = leave the bytes symbolic)
pub fn class_bytes(class: u8) -> (&'static [u8], &'static str) {
    match class {
        1 => (b"a", "letter"),
        2 => (b"1", "digit"),
        3 => (b"-", "sign"),
        4 => (b".", "dot"),
        5 => (b"#H", "#H"),
        6 => (b"#q", "#Q"),
        7 => (b"#B", "#B"),
        8 => (b"#0", "#0 block"),
        9 => (b"#1", "#1 block"),
        10 => (b"#2", "#2 block"),
        11 => (b"#9", "#9 block"),
        12 => (b"\"", "double quote"),
        13 => (b"'", "single quote"),
        14 => (b"(", "expression"),
        15 => (b"*", "common"),
        16 => (b":", "colon"),
        17 => (b"?", "query"),
        18 => (b";", "semicolon"),
        19 => (b",", "comma"),
        20 => (b" ", "space"),
        21 => (b"\n", "newline"),
        22 => (b"!", "other ASCII"),
        23 => (b"\x80", "non-ASCII"),
        24 => (b"1V", "number + suffix"),
        25 => (b"1 ", "number + space"),
        _ => (b"", "any"),
    }
}

fn off(base: &[u8], p: &[u8]) -> usize {
    (p.as_ptr() as usize).wrapping_sub(base.as_ptr() as usize)
}

/// MODE 0: inside a header; 1: outside (data part); 2: inside a common command header (after `*A`);
/// 3: data part of a common command (after `*A `)
pub fn step<const N: usize, const MODE: u8, const CLASS: u8, S: Src>(s: &mut S) -> R {
    let mut buf: [u8; N] = crate::bytes::<N, S>(s);
    let (rep, _) = class_bytes(CLASS);
    let mut i = 0;
    while i < rep.len() && i < N {
        buf[i] = rep[i];
        i += 1;
    }
    let (h0, c0) = match MODE {
        0 => (true, false),
        1 => (false, false),
        2 => (true, true),
        _ => (false, true),
    };
    // the real lexer in that state, positioned on `buf`
    let pre: &[u8] = match MODE {
        0 | 1 => b"",
        2 => b"*A",
        _ => b"*A ",
    };
    let mut t = if MODE == 1 { Tokenizer::new_params(pre) } else { Tokenizer::new(pre) };
    if MODE >= 2 {
        let _ = t.next();
    }
    if MODE == 3 {
        let _ = t.next();
    }
    // (a zero-length array is a zero-sized object whose address CBMC cannot keep concrete - all eight
    // readers were explored for N = 0, 400 s; an empty view of a real one-byte object is concrete)
    let backing: [u8; 1] = [0];
    let view: &[u8] = if N == 0 { &backing[..0] } else { &buf[..] };
    t.chars = view.iter();
    let r = t.next();
    let cursor = N - t.chars.as_slice().len();
    // state after the step, observed through concrete probes
    let mut p1 = t.clone();
    p1.chars = b"?".iter();
    let hdr_after = matches!(p1.next(), Some(Ok(Token::HeaderQuerySuffix)));
    let mut p2 = t.clone();
    p2.chars = b":".iter();
    let plain_hdr_after = matches!(p2.next(), Some(Ok(Token::HeaderMnemonicSeparator)));

    let want = ref_step(view, h0, c0);
    crate::note!("C04 step<N={},MODE={},CLASS={}>: input {:?} state (header {}, common {}) -> real {:?} cursor {} (header after: {}), reference {:?}",
        N, MODE, CLASS, crate::checks::show(&buf), h0, c0, r, cursor, hdr_after, want);

    // C01 / C14, for every input: progress and error class
    match r {
        Some(Ok(_)) => ob!(cursor >= 1 && cursor <= N, "C01: a lexer step produced an element without consuming input"),
        Some(Err(e)) => {
            let c = e.get_code();
            ob!((c <= -100 && c >= -199) || c == -222, "C14: the lexer raised an error outside the command-error class");
        }
        None => {}
    }
    witness!(matches!(want, Expect::Tok(_)), "step: a well-formed element");
    match want {
        Expect::Any => {}
        Expect::End => ob!(r.is_none(), "C04: end of message not recognised"),
        Expect::Reject => {
            witness!(true, "step: a rejected element");
            ob!(matches!(r, Some(Err(_))), "C04: an element violating its 488.2 syntax is not rejected");
        }
        Expect::Tok(e) => {
            let tok = match r {
                Some(Ok(tok)) => tok,
                _ => return Err("C04: a well-formed element is rejected or missed"),
            };
            let (kind, a, b, a2, b2, val) = match tok {
                Token::HeaderMnemonicSeparator => (Kind::Colon, 0, 1, 0, 0, 0),
                Token::HeaderQuerySuffix => (Kind::Query, 0, 1, 0, 0, 0),
                Token::ProgramMessageUnitSeparator => (Kind::Semi, 0, 1, 0, 0, 0),
                Token::ProgramHeaderSeparator => (Kind::HeaderSep, e.a, e.b, 0, 0, 0),
                Token::ProgramDataSeparator => (Kind::Comma, 0, 1, 0, 0, 0),
                Token::ProgramMnemonic(p) => (Kind::Mnemonic, off(view, p), off(view, p) + p.len(), 0, 0, 0),
                Token::CharacterProgramData(p) => (Kind::CharData, off(view, p), off(view, p) + p.len(), 0, 0, 0),
                Token::DecimalNumericProgramData(p) => (Kind::Decimal, off(view, p), off(view, p) + p.len(), 0, 0, 0),
                Token::DecimalNumericSuffixProgramData(p, q) => {
                    (Kind::DecimalSuffix, off(view, p), off(view, p) + p.len(), off(view, q), off(view, q) + q.len(), 0)
                }
                Token::NonDecimalNumericProgramData(v) => (Kind::NonDecimal, e.a, e.b, 0, 0, v),
                Token::StringProgramData(p) => (Kind::Str, off(view, p), off(view, p) + p.len(), 0, 0, 0),
                Token::ArbitraryBlockData(p) => (Kind::Block, off(view, p), off(view, p) + p.len(), 0, 0, 0),
                Token::ExpressionProgramData(p) => (Kind::Expr, off(view, p), off(view, p) + p.len(), 0, 0, 0),
            };
            ob!(kind == e.kind, "C04: element has the wrong type");
            ob!(a == e.a && b == e.b, "C04: payload is not the exact byte range the element denotes");
            ob!(a2 == e.a2 && b2 == e.b2, "C04: suffix payload is not the exact byte range");
            ob!(val == e.value, "C04: non-decimal literal does not carry its exact value");
            ob!(e.cursor_any || cursor == e.consumed, "C04: element boundary (cursor after the element) is wrong");
            ob!(hdr_after == e.in_header, "C04: header / data mode after the element is wrong");
            ob!(!e.in_header || plain_hdr_after == !e.in_common, "C04: common-command mode after the element is wrong");
        }
    }
    Ok(())
}
