//! C07 — integer parameters convert to the exactly rounded value or a range error.

use crate::oracles::round::{acceptable, Out};
use crate::{assume, ob, witness, Src, R};
use scpi::error::Error;
use scpi::parser::tokenizer::Token;

pub trait IntT: Copy + for<'a> TryFrom<Token<'a>, Error = Error> {
    const MIN_: i128;
    const MAX_: i128;
    /// intermediate float is f32 (8/16-bit targets) or f64
    const F32: bool;
    fn wide(self) -> i128;
}

macro_rules! int_t {
    ($t:ty, $f32:expr) => {
        impl IntT for $t {
            const MIN_: i128 = <$t>::MIN as i128;
            const MAX_: i128 = <$t>::MAX as i128;
            const F32: bool = $f32;
            fn wide(self) -> i128 {
                self as i128
            }
        }
    };
}
int_t!(u8, true);
int_t!(i8, true);
int_t!(u16, true);
int_t!(i16, true);
int_t!(u32, false);
int_t!(i32, false);
int_t!(u64, false);
int_t!(i64, false);
int_t!(usize, false);
int_t!(isize, false);

fn outcome<T: IntT>(r: Result<T, Error>) -> Out {
    match r {
        Ok(n) => Out::Value(n.wide()),
        Err(e) => Out::Code(e.get_code()),
    }
}

/// Convert the decimal literal that denotes `v` (f32 when `T::F32`) to `T`.
///
/// Kani: the literal is the fixed non-NR1 text `1.5` (so the real integer fast
/// path fails with InvalidDigit and the fallback is entered) and
/// `lexical_core::parse::<f32|f64>` is stubbed to return `v`.
/// Native replay: `v` is printed as its shortest round-trip literal, lexed by
/// the real tokenizer and converted with the real lexical-core.
fn convert_float<T: IntT>(v32: f32, v64: f64) -> Out {
    #[cfg(kani)]
    {
        unsafe {
            crate::stubs::STUB_F32 = v32;
            crate::stubs::STUB_F64 = v64;
            crate::stubs::STUB_FLOAT_MODE = 0;
        }
        outcome(T::try_from(Token::DecimalNumericProgramData(b"1.5")))
    }
    #[cfg(not(kani))]
    {
        let lit = if T::F32 { crate::checks::literal_f32(v32) } else { crate::checks::literal_f64(v64) };
        let tok = scpi::parser::tokenizer::Tokenizer::new_params(lit.as_bytes()).next();
        match tok {
            Some(Ok(t @ Token::DecimalNumericProgramData(_))) => outcome(T::try_from(t)),
            _ => Out::Code(i16::MAX), // the literal did not lex as a number: replay harness bug
        }
    }
}

/// (a) fallback kernel: for EVERY non-NaN float the parser can hand back.
pub fn kernel<T: IntT, S: Src>(s: &mut S) -> R {
    let (v32, v64) = if T::F32 {
        let v = s.f32();
        (v, v as f64)
    } else {
        let v = s.f64();
        (0.0f32, v)
    };
    assume!(s, !v64.is_nan());
    let out = convert_float::<T>(v32, v64);
    crate::note!("C07 kernel: target {} <- literal of value {:e}: outcome {:?}", core::any::type_name::<T>(), v64, out);
    witness!(matches!(out, Out::Value(n) if n != 0 && n != 1), "kernel: converts to a value");
    witness!(out == Out::Code(-222), "kernel: range error");
    ob!(
        acceptable(v64, T::MIN_, T::MAX_, out),
        "C07: result is neither the nearest representable integer nor a justified -222"
    );
    Ok(())
}
