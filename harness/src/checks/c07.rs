//! C07 — integer parameters convert to the exactly rounded value or a range error.

use crate::oracles::round::{acceptable, Out};
use crate::{assume, ob, witness, Src, R};
use scpi::error::Error;
use scpi::parser::tokenizer::Token;

pub trait IntT: Copy + for<'a> TryFrom<Token<'a>, Error = Error> {
    const MIN_: i128;
    const MAX_: i128;
    /// intermediate float is f32 (8/16-bit targets) or f64
    const F32: bool;
    fn wide(self) -> i128;
}

macro_rules! int_t {
    ($t:ty, $f32:expr) => {
        impl IntT for $t {
            const MIN_: i128 = <$t>::MIN as i128;
            const MAX_: i128 = <$t>::MAX as i128;
            const F32: bool = $f32;
            fn wide(self) -> i128 {
                self as i128
            }
        }
    };
}
int_t!(u8, true);
int_t!(i8, true);
int_t!(u16, true);
int_t!(i16, true);
int_t!(u32, false);
int_t!(i32, false);
int_t!(u64, false);
int_t!(i64, false);
int_t!(usize, false);
int_t!(isize, false);

fn outcome<T: IntT>(r: Result<T, Error>) -> Out {
    match r {
        Ok(n) => Out::Value(n.wide()),
        Err(e) => Out::Code(e.get_code()),
    }
}

/// Convert the decimal literal that denotes `v` (f32 when `T::F32`) to `T`.
///
/// Kani: the literal is the fixed non-NR1 text `1.5` (so the real integer fast
/// path fails with InvalidDigit and the fallback is entered) and
/// `lexical_core::parse::<f32|f64>` is stubbed to return `v`.
/// Native replay: `v` is printed as its shortest round-trip literal, lexed by
/// the real tokenizer and converted with the real lexical-core.
fn convert_float<T: IntT>(v32: f32, v64: f64) -> Out {
    #[cfg(kani)]
    {
        unsafe {
            crate::stubs::STUB_F32 = v32;
            crate::stubs::STUB_F64 = v64;
            crate::stubs::STUB_FLOAT_MODE = 0;
        }
        outcome(T::try_from(Token::DecimalNumericProgramData(b"1.5")))
    }
    #[cfg(not(kani))]
    {
        let lit = if T::F32 { crate::checks::literal_f32(v32) } else { crate::checks::literal_f64(v64) };
        let tok = scpi::parser::tokenizer::Tokenizer::new_params(lit.as_bytes()).next();
        match tok {
            Some(Ok(t @ Token::DecimalNumericProgramData(_))) => outcome(T::try_from(t)),
            _ => Out::Code(i16::MAX), // the literal did not lex as a number: replay harness bug
        }
    }
}

/// (a) fallback kernel: for EVERY non-NaN float the parser can hand back.
pub fn kernel<T: IntT, S: Src>(s: &mut S) -> R {
    let (v32, v64) = if T::F32 {
        let v = s.f32();
        (v, v as f64)
    } else {
        let v = s.f64();
        (0.0f32, v)
    };
    assume!(s, !v64.is_nan());
    let out = convert_float::<T>(v32, v64);
    crate::note!("C07 kernel: target {} <- literal of value {:e}: outcome {:?}", core::any::type_name::<T>(), v64, out);
    witness!(matches!(out, Out::Value(n) if n != 0 && n != 1), "kernel: converts to a value");
    witness!(out == Out::Code(-222), "kernel: range error");
    ob!(
        acceptable(v64, T::MIN_, T::MAX_, out),
        "C07: result is neither the nearest representable integer nor a justified -222"
    );
    Ok(())
}

fn is_digit(b: u8) -> bool {
    b >= b'0' && b <= b'9'
}

/// (b) fast path: real lexical-core integer parser on every NR1 literal of exactly N bytes
/// (optional sign + digits) against a reference accumulator.
pub fn nr1<T: IntT, const N: usize, S: Src>(s: &mut S) -> R {
    let lit: [u8; N] = crate::bytes::<N, S>(s);
    // NR1 shape: [+-]? digit+
    let signed = lit[0] == b'+' || lit[0] == b'-';
    assume!(s, signed || is_digit(lit[0]));
    assume!(s, !signed || N >= 2);
    let mut i = 1;
    let mut ok = true;
    while i < N {
        ok &= is_digit(lit[i]);
        i += 1;
    }
    assume!(s, ok);
    // reference value
    let mut acc: i128 = 0;
    let mut i = if signed { 1 } else { 0 };
    while i < N {
        acc = acc * 10 + (lit[i] - b'0') as i128;
        i += 1;
    }
    if lit[0] == b'-' {
        acc = -acc;
    }
    // the float fallback (entered e.g. for "-5" into an unsigned target) sees the exact value
    #[cfg(kani)]
    unsafe {
        crate::stubs::STUB_F32 = acc as f32;
        crate::stubs::STUB_F64 = acc as f64;
        crate::stubs::STUB_FLOAT_MODE = 0;
    }
    let out = outcome(T::try_from(Token::DecimalNumericProgramData(&lit)));
    crate::note!("C07 nr1: target {} <- {:?} (= {}): outcome {:?}", core::any::type_name::<T>(),
        core::str::from_utf8(&lit), acc, out);
    witness!(matches!(out, Out::Value(n) if n > 1 || n < -1), "nr1: a value");
    let expect = if acc >= T::MIN_ && acc <= T::MAX_ { Out::Value(acc) } else { Out::Code(-222) };
    ob!(out == expect, "C07: NR1 literal does not convert to its exact value / -222");
    Ok(())
}

/// (c) non-decimal literals convert by exact value.
pub fn nondecimal<T: IntT, S: Src>(s: &mut S) -> R {
    let v = s.u64();
    let out = outcome(T::try_from(Token::NonDecimalNumericProgramData(v)));
    crate::note!("C07 nondecimal: target {} <- {}: {:?}", core::any::type_name::<T>(), v, out);
    witness!(matches!(out, Out::Value(n) if n > 1), "nondecimal: a value");
    let expect = if (v as i128) <= T::MAX_ { Out::Value(v as i128) } else { Out::Code(-222) };
    ob!(out == expect, "C07: non-decimal literal does not convert by exact value");
    Ok(())
}

fn eq_nocase(a: &[u8], b: &[u8]) -> bool {
    if a.len() != b.len() {
        return false;
    }
    let mut i = 0;
    while i < a.len() {
        if a[i].to_ascii_uppercase() != b[i].to_ascii_uppercase() {
            return false;
        }
        i += 1;
    }
    true
}

/// (d) character data of exactly N bytes: MIN/MAX keywords (short or long form, any case)
/// give the bounds, everything else is a data type error (-104).
pub fn chardata<T: IntT, const N: usize, S: Src>(s: &mut S) -> R {
    let d: [u8; N] = crate::bytes::<N, S>(s);
    let out = outcome(T::try_from(Token::CharacterProgramData(&d)));
    crate::note!("C07 chardata: target {} <- {:?}: {:?}", core::any::type_name::<T>(), core::str::from_utf8(&d), out);
    let is_max = eq_nocase(&d, b"MAX") || eq_nocase(&d, b"MAXIMUM");
    let is_min = eq_nocase(&d, b"MIN") || eq_nocase(&d, b"MINIMUM");
    witness!(is_max, "chardata: MAX keyword");
    let expect = if is_max {
        Out::Value(T::MAX_)
    } else if is_min {
        Out::Value(T::MIN_)
    } else {
        Out::Code(-104)
    };
    ob!(out == expect, "C07: MIN/MAX keyword or character data mishandled");
    Ok(())
}

/// (d') every other data element kind is rejected with a command error: suffix -138, the rest -104.
/// (one conversion per concrete token kind: a symbolic `Token` discriminant would make CBMC explore
/// the numeric arms on garbage payloads)
pub fn otherkinds<T: IntT, S: Src>(s: &mut S) -> R {
    let p: [u8; 3] = crate::bytes::<3, S>(s);
    let o0 = outcome(T::try_from(Token::DecimalNumericSuffixProgramData(&p[..1], &p[1..])));
    let o1 = outcome(T::try_from(Token::StringProgramData(&p)));
    let o2 = outcome(T::try_from(Token::ArbitraryBlockData(&p)));
    let o3 = outcome(T::try_from(Token::ExpressionProgramData(&p)));
    crate::note!("C07 otherkinds: target {} payload {:?}: suffix {:?} string {:?} block {:?} expr {:?}",
        core::any::type_name::<T>(), p, o0, o1, o2, o3);
    witness!(o0 == Out::Code(-138), "otherkinds: suffix rejected");
    ob!(o0 == Out::Code(-138), "C07: suffixed literal not rejected with -138");
    ob!(o1 == Out::Code(-104) && o2 == Out::Code(-104) && o3 == Out::Code(-104),
        "C07: non-numeric element not rejected with -104");
    Ok(())
}

/// bool from a decimal literal is "rounds to non-zero" (defined through the isize path).
pub fn bool_numeric<S: Src>(s: &mut S) -> R {
    let v = s.f64();
    assume!(s, !v.is_nan());
    #[cfg(kani)]
    let r = {
        unsafe {
            crate::stubs::STUB_F64 = v;
            crate::stubs::STUB_FLOAT_MODE = 0;
        }
        bool::try_from(Token::DecimalNumericProgramData(b"1.5"))
    };
    #[cfg(not(kani))]
    let r = {
        let lit = crate::checks::literal_f64(v);
        match scpi::parser::tokenizer::Tokenizer::new_params(lit.as_bytes()).next() {
            Some(Ok(t)) => bool::try_from(t),
            _ => return Err("replay: literal did not lex"),
        }
    };
    crate::note!("C07 bool: {:e} -> {:?}", v, r);
    let io = acceptable(v, isize::MIN as i128, isize::MAX as i128, Out::Code(-222));
    let (lo, hi) = if v.is_infinite() { (1, 1) } else { crate::oracles::round::nearest(v) };
    match r {
        Ok(b) => {
            witness!(b, "bool: true");
            witness!(!b, "bool: false");
            ob!(!v.is_infinite(), "C07/C08: bool from an infinite value");
            ob!((b && (lo != 0 || hi != 0)) || (!b && (lo == 0 || hi == 0)), "C07/C08: bool is not 'rounds to non-zero'");
        }
        Err(e) => {
            ob!(e.get_code() == -222 && io, "C07/C08: bool conversion failed although the value rounds to a representable integer");
        }
    }
    Ok(())
}
