//! C18 — unit suffixes scale by their SCPI multiplier; unknown suffixes are rejected.

use crate::oracles::units::*;
use crate::{assume, ob, witness, Src, R};
use scpi::error::Error;
use scpi::parser::suffix::{Amplitude, Db};
use scpi::parser::tokenizer::Token;
use scpi::units::uom::si::f32 as uq;

/// a supported quantity: conversion result as the stored value in the base unit
pub trait Qty {
    const Q: Q;
    fn convert(t: Token) -> Result<f32, Error>;
}
macro_rules! qty {
    ($name:ident, $ty:ty, $q:expr) => {
        pub struct $name;
        impl Qty for $name {
            const Q: Q = $q;
            fn convert(t: Token) -> Result<f32, Error> {
                <$ty>::try_from(t).map(|x| x.value)
            }
        }
    };
}
qty!(Potential, uq::ElectricPotential, Q::Potential);
qty!(Current, uq::ElectricCurrent, Q::Current);
qty!(Power, uq::Power, Q::Power);
qty!(Energy, uq::Energy, Q::Energy);
qty!(Charge, uq::ElectricCharge, Q::Charge);
qty!(Capacitance, uq::Capacitance, Q::Capacitance);
qty!(Inductance, uq::Inductance, Q::Inductance);
qty!(Resistance, uq::ElectricalResistance, Q::Resistance);
qty!(Conductance, uq::ElectricalConductance, Q::Conductance);
qty!(Frequency, uq::Frequency, Q::Frequency);
qty!(Time, uq::Time, Q::Time);
qty!(Angle, uq::Angle, Q::Angle);
qty!(Ratio, uq::Ratio, Q::Ratio);
qty!(Temperature, uq::ThermodynamicTemperature, Q::Temperature);

/// the decimal literal denoting `v`, as a token (Kani: fixed text + float stub; native: real text)
macro_rules! with_number {
    ($v:expr, |$num:ident| $body:expr) => {{
        #[cfg(kani)]
        {
            unsafe {
                crate::stubs::STUB_F32 = $v;
                crate::stubs::STUB_FLOAT_MODE = 0;
            }
            let $num: &[u8] = b"1.5";
            $body
        }
        #[cfg(not(kani))]
        {
            let lit = crate::checks::literal_f32($v);
            let $num: &[u8] = lit.as_bytes();
            $body
        }
    }};
}

fn draw_value<S: Src>(s: &mut S) -> f32 {
    s.f32()
}

fn in_range(v: f32) -> bool {
    let a = if v < 0.0 { -v } else { v };
    v == 0.0 || (a >= 1e-15 && a <= 1e15)
}

/// suffix of 1..=L symbolic bytes; the number is the fixed literal 1.5 (which unit a suffix selects
/// is the library's logic and is decided over every suffix; that the selected unit then scales
/// EVERY number correctly is decided per documented suffix in `scale`)
pub fn suffix<T: Qty, const L: usize, S: Src>(s: &mut S) -> R {
    let b: [u8; L] = crate::bytes::<L, S>(s);
    let n = s.u8() as usize;
    let v = 1.5f32;
    assume!(s, n >= 1 && n <= L);
    let sfx = &b[..n];
    // the lexer only hands out suffixes over this alphabet (C04)
    let mut i = 0;
    let mut ok = true;
    while i < n {
        let c = sfx[i];
        ok &= c.is_ascii_alphanumeric() || c == b'.' || c == b'/' || c == b'-';
        i += 1;
    }
    assume!(s, ok);
    let got = with_number!(v, |num| T::convert(Token::DecimalNumericSuffixProgramData(num, sfx)));
    let doc = is_documented(T::Q, sfx);
    let (nr, value_ok) = match got {
        Ok(x) => judge(T::Q, sfx, v, x),
        Err(_) => (0, false),
    };
    crate::note!("C18 suffix<{:?}>: {:e} {:?} -> {:?}; SCPI readings of the suffix {:?}; documented {}", T::Q, v,
        core::str::from_utf8(sfx), got, readings(T::Q, sfx), doc);
    witness!(doc && got.is_ok(), "suffix: a documented suffix is accepted");
    witness!(got.is_err(), "suffix: a rejected suffix");
    if doc {
        ob!(got.is_ok(), "C18: a suffix defined for the quantity is rejected (case must be ignored)");
    }
    match got {
        Ok(_) => {
            ob!(nr > 0, "C18: a suffix that SCPI does not define for the quantity is accepted");
            ob!(value_ok, "C18: value is not the number scaled by the SCPI multiplier and unit of the suffix");
        }
        Err(e) => {
            ob!(e.get_code() <= -100 && e.get_code() > -300, "C18: unknown suffix not rejected with a command/execution error");
        }
    }
    Ok(())
}

/// every documented suffix (concrete text, upper and lower case), number any moderate f32:
/// the value is the number scaled by the suffix's SCPI multiplier and unit
pub fn scale<T: Qty, S: Src>(s: &mut S) -> R {
    let v = draw_value(s);
    assume!(s, in_range(v));
    let docs = documented(T::Q);
    let mut i = 0;
    while i < docs.len() {
        let sfx = docs[i];
        let got = with_number!(v, |num| T::convert(Token::DecimalNumericSuffixProgramData(num, sfx)));
        crate::note!("C18 scale<{:?}>: {:e} {:?} -> {:?}", T::Q, v, core::str::from_utf8(sfx), got);
        match got {
            Ok(x) => {
                let (nr, okv) = judge(T::Q, sfx, v, x);
                ob!(nr > 0 && okv, "C18: value is not the number scaled by the SCPI multiplier and unit of the suffix");
            }
            Err(_) => return Err("C18: a suffix defined for the quantity is rejected"),
        }
        i += 1;
    }
    witness!(v > 1.0, "scale: a value");
    Ok(())
}

/// bare number -> base unit; non-numeric elements -> error
pub fn bare_and_other<T: Qty, S: Src>(s: &mut S) -> R {
    let v = draw_value(s);
    assume!(s, in_range(v));
    let p: [u8; 3] = crate::bytes::<3, S>(s);
    let got = with_number!(v, |num| T::convert(Token::DecimalNumericProgramData(num)));
    let (k, off) = bare(T::Q);
    crate::note!("C18 bare<{:?}>: {:e} -> {:?}", T::Q, v, got);
    witness!(v > 1.0, "bare: a value");
    let tol = ((if v < 0.0 { -v } else { v }) as f64 + off) * 2e-6 + 1e-37;
    ob!(matches!(got, Ok(x) if { let d = (x as f64) - ((v as f64) + off) * k; d <= tol && -d <= tol }),
        "C18: a value without suffix is not taken in the base unit");
    let others = [
        T::convert(Token::CharacterProgramData(&p)),
        T::convert(Token::StringProgramData(&p)),
        T::convert(Token::ArbitraryBlockData(&p)),
        T::convert(Token::ExpressionProgramData(&p)),
        T::convert(Token::NonDecimalNumericProgramData(p[0] as u64)),
    ];
    let mut i = 0;
    while i < others.len() {
        ob!(others[i].is_err(), "C18: a non-numeric element is accepted as a quantity");
        i += 1;
    }
    Ok(())
}

fn ends_nocase(s: &[u8], tail: &[u8]) -> bool {
    s.len() >= tail.len() && crate::oracles::mnemonic::eq_nocase(&s[s.len() - tail.len()..], tail)
}

/// Amplitude<ElectricPotential>: PK / PP / RMS classify without altering the number
pub fn amplitude<const L: usize, S: Src>(s: &mut S) -> R {
    let b: [u8; L] = crate::bytes::<L, S>(s);
    let n = s.u8() as usize;
    let v = 1.5f32;
    assume!(s, n >= 1 && n <= L);
    let sfx = &b[..n];
    let mut i = 0;
    let mut ok = true;
    while i < n {
        ok &= sfx[i].is_ascii_alphanumeric();
        i += 1;
    }
    assume!(s, ok);
    let got: Result<Amplitude<uq::ElectricPotential>, Error> =
        with_number!(v, |num| Amplitude::try_from(Token::DecimalNumericSuffixProgramData(num, sfx)));
    // reference classification: strip PK / PP / RMS (longest first is irrelevant: distinct tails)
    let (kind, unit) = if ends_nocase(sfx, b"RMS") {
        (3, &sfx[..n - 3])
    } else if ends_nocase(sfx, b"PK") {
        (1, &sfx[..n - 2])
    } else if ends_nocase(sfx, b"PP") {
        (2, &sfx[..n - 2])
    } else {
        (0, sfx)
    };
    let plain = with_number!(v, |num| Potential::convert(Token::DecimalNumericSuffixProgramData(num, unit)));
    let (gk, gv) = match &got {
        Ok(Amplitude::None(x)) => (0, Some(x.value)),
        Ok(Amplitude::Peak(x)) => (1, Some(x.value)),
        Ok(Amplitude::PeakToPeak(x)) => (2, Some(x.value)),
        Ok(Amplitude::Rms(x)) => (3, Some(x.value)),
        Err(_) => (9, None),
    };
    crate::note!("C18 amplitude: {:e} {:?} -> class {} value {:?}; reference class {} unit {:?} value {:?}", v,
        core::str::from_utf8(sfx), gk, gv, kind, core::str::from_utf8(unit), plain);
    witness!(kind == 3 && plain.is_ok(), "amplitude: an RMS value");
    match plain {
        Ok(x) => ob!(gk == kind && gv == Some(x), "C18: amplitude suffix misclassified or number altered"),
        Err(_) => ob!(got.is_err(), "C18: amplitude with an undefined unit accepted"),
    }
    Ok(())
}

/// Db<f32, ElectricPotential>: DBV / DBMV / DBUV are logarithmic, V.. linear, bare number unclassified
pub fn decibel<const L: usize, S: Src>(s: &mut S) -> R {
    let b: [u8; L] = crate::bytes::<L, S>(s);
    let n = s.u8() as usize;
    let v = 1.5f32;
    assume!(s, n >= 1 && n <= L);
    let sfx = &b[..n];
    let mut i = 0;
    let mut ok = true;
    while i < n {
        ok &= sfx[i].is_ascii_alphanumeric();
        i += 1;
    }
    assume!(s, ok);
    let got: Result<Db<f32, uq::ElectricPotential>, Error> =
        with_number!(v, |num| Db::try_from(Token::DecimalNumericSuffixProgramData(num, sfx)));
    let bare: Result<Db<f32, uq::ElectricPotential>, Error> = with_number!(v, |num| Db::try_from(Token::DecimalNumericProgramData(num)));
    use crate::oracles::mnemonic::eq_nocase;
    let log_ref = if eq_nocase(sfx, b"DBV") {
        Some(1.0f64)
    } else if eq_nocase(sfx, b"DBMV") {
        Some(1e-3)
    } else if eq_nocase(sfx, b"DBUV") {
        Some(1e-6)
    } else {
        None
    };
    let plain = with_number!(v, |num| Potential::convert(Token::DecimalNumericSuffixProgramData(num, sfx)));
    crate::note!("C18 decibel: {:e} {:?}: reference log unit {:?}, linear {:?}", v, core::str::from_utf8(sfx), log_ref, plain);
    witness!(log_ref.is_some(), "decibel: a logarithmic suffix");
    ob!(matches!(bare, Ok(Db::None(x)) if x == v), "C18: a bare number must stay unclassified and unaltered");
    match (log_ref, got) {
        (Some(r), Ok(Db::Logarithmic(x, u))) => {
            ob!(x == v, "C18: decibel suffix altered the number");
            ob!(close(u.value as f64, r), "C18: decibel reference unit wrong");
        }
        (Some(_), _) => return Err("C18: decibel suffix not classified as logarithmic"),
        (None, Ok(Db::Linear(u))) => ob!(matches!(plain, Ok(x) if x == u.value), "C18: linear suffix value differs from the plain conversion"),
        (None, Err(_)) => ob!(plain.is_err(), "C18: linear suffix rejected although defined"),
        (None, _) => return Err("C18: non-decibel suffix misclassified"),
    }
    Ok(())
}
