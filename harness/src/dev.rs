//! A device wired exactly as `scpi-contrib/examples/minimal_scpi.rs` documents it
//! (handle_error -> push_error, stb -> scpi_stb, cls -> scpi_cls, opc -> scpi_opc), with an
//! allocation-free ArrayVec error queue so that Kani can hold an arbitrary state of it.

use arrayvec::ArrayVec;
use scpi::error::{Error, ErrorQueue, Result};
use scpi::Device;
use scpi_contrib::ieee488::IEEE4882;
use scpi_contrib::scpi1999::prelude::*;

#[derive(Clone)]
pub struct Dev<const Q: usize> {
    pub esr: u8,
    pub ese: u8,
    pub sre: u8,
    pub oper: EventRegister,
    pub ques: EventRegister,
    pub errors: ArrayVec<Error, Q>,
    /// what `*TST?`'s device hook returns
    pub tst_result: Result<()>,
    /// call counters of the device hooks
    pub n_rst: u8,
    pub n_tst: u8,
    /// when set, `num_errors()` reports this number instead of the real queue length (a queue
    /// implementation with an arbitrary number of unread items, abstracted to its length)
    pub fake_count: Option<usize>,
}

impl<const Q: usize> Dev<Q> {
    pub fn new() -> Self {
        Dev {
            esr: 0,
            ese: 0,
            sre: 0,
            oper: EventRegister::default(),
            ques: EventRegister::default(),
            errors: ArrayVec::new(),
            tst_result: Ok(()),
            n_rst: 0,
            n_tst: 0,
            fake_count: None,
        }
    }
}

impl<const Q: usize> Device for Dev<Q> {
    fn handle_error(&mut self, err: Error) {
        self.push_error(err)
    }
}

impl<const Q: usize> IEEE4882 for Dev<Q> {
    fn stb(&self) -> u8 {
        self.scpi_stb()
    }
    fn sre(&self) -> u8 {
        self.sre
    }
    fn set_sre(&mut self, value: u8) {
        self.sre = value
    }
    fn esr(&self) -> u8 {
        self.esr
    }
    fn set_esr(&mut self, value: u8) {
        self.esr = value
    }
    fn ese(&self) -> u8 {
        self.ese
    }
    fn set_ese(&mut self, value: u8) {
        self.ese = value
    }
    fn tst(&mut self) -> Result<()> {
        self.n_tst = self.n_tst.wrapping_add(1);
        self.tst_result
    }
    fn rst(&mut self) -> Result<()> {
        self.n_rst = self.n_rst.wrapping_add(1);
        Ok(())
    }
    fn cls(&mut self) -> Result<()> {
        self.scpi_cls()
    }
    fn opc(&mut self) -> Result<()> {
        self.scpi_opc()
    }
}

impl<const Q: usize> GetEventRegister<Operation> for Dev<Q> {
    fn register(&self) -> &EventRegister {
        &self.oper
    }
    fn register_mut(&mut self) -> &mut EventRegister {
        &mut self.oper
    }
}

impl<const Q: usize> GetEventRegister<Questionable> for Dev<Q> {
    fn register(&self) -> &EventRegister {
        &self.ques
    }
    fn register_mut(&mut self) -> &mut EventRegister {
        &mut self.ques
    }
}

impl<const Q: usize> ErrorQueue for Dev<Q> {
    fn push_back_error(&mut self, err: Error) {
        self.errors.push_back_error(err)
    }
    fn pop_front_error(&mut self) -> Option<Error> {
        self.errors.pop_front_error()
    }
    fn num_errors(&self) -> usize {
        match self.fake_count {
            Some(n) => n,
            None => self.errors.num_errors(),
        }
    }
    fn clear_errors(&mut self) {
        self.errors.clear_errors()
    }
}

impl<const Q: usize> ScpiDevice for Dev<Q> {}

/// Plain-data snapshot of the status state (for frame conditions).
#[derive(Clone, Copy, PartialEq, Eq, Debug)]
pub struct Regs {
    pub esr: u8,
    pub ese: u8,
    pub sre: u8,
    pub oper: [u16; 5],
    pub ques: [u16; 5],
    pub qlen: usize,
}

pub fn reg5(r: &EventRegister) -> [u16; 5] {
    [r.condition, r.event, r.enable, r.ntr_filter, r.ptr_filter]
}

impl<const Q: usize> Dev<Q> {
    pub fn regs(&self) -> Regs {
        Regs { esr: self.esr, ese: self.ese, sre: self.sre, oper: reg5(&self.oper), ques: reg5(&self.ques), qlen: self.errors.len() }
    }

    /// arbitrary status registers, `qlen` queued errors with arbitrary custom codes
    pub fn draw<S: crate::Src>(s: &mut S, qlen: usize) -> Self {
        let mut d = Dev::new();
        d.esr = s.u8();
        d.ese = s.u8();
        d.sre = s.u8();
        d.oper = draw_reg(s);
        d.ques = draw_reg(s);
        let mut i = 0;
        while i < qlen && i < Q {
            let c = s.i16();
            d.errors.push(Error::custom(c, b"queued"));
            i += 1;
        }
        d
    }
}

pub fn draw_reg<S: crate::Src>(s: &mut S) -> EventRegister {
    EventRegister { condition: s.u16(), event: s.u16(), enable: s.u16(), ntr_filter: s.u16(), ptr_filter: s.u16() }
}
