//! Calling a command handler directly (public `Command::event/query`) with a hand-built
//! `Parameters` and `ResponseUnit`, bypassing the tree.

use arrayvec::ArrayVec;
use scpi::error::Result;
use scpi::parser::parameters::Parameters;
use scpi::parser::response::Formatter;
use scpi::parser::tokenizer::Tokenizer;
use scpi::tree::prelude::Command;
use scpi::{Context, Device};

/// What the handler's (single) parameter is.
#[derive(Clone, Copy, Debug, PartialEq, Eq)]
pub enum P {
    /// no parameter present
    None,
    U8(u8),
    U16(u16),
    /// a parameter whose conversion fails with -222 (out of range for the requested type)
    OutOfRange,
}

#[cfg(kani)]
fn park(p: P) {
    unsafe {
        crate::stubs::STUB_ND_CALLS = 0;
        crate::stubs::STUB_ND_ERR = 0;
        match p {
            P::None => crate::stubs::STUB_ND_ERR = -109,
            P::U8(v) => crate::stubs::STUB_ND_U8 = v,
            P::U16(v) => crate::stubs::STUB_ND_U16 = v,
            P::OutOfRange => crate::stubs::STUB_ND_ERR = -222,
        }
    }
}

#[cfg(not(kani))]
fn literal(p: P) -> std::string::String {
    match p {
        P::None => "".into(),
        P::U8(v) => std::format!("{}", v),
        P::U16(v) => std::format!("{}", v),
        P::OutOfRange => "99999999999".into(),
    }
}

pub fn event<D: Device, C: Command<D>>(cmd: &C, dev: &mut D, ctx: &mut Context, p: P) -> Result<()> {
    #[cfg(kani)]
    {
        park(p);
        let mut t = Tokenizer::new_params(b"").peekable();
        cmd.event(dev, ctx, Parameters::with(&mut t))
    }
    #[cfg(not(kani))]
    {
        let lit = literal(p);
        let mut t = Tokenizer::new_params(lit.as_bytes()).peekable();
        cmd.event(dev, ctx, Parameters::with(&mut t))
    }
}

pub fn query<D: Device, C: Command<D>, const N: usize>(
    cmd: &C,
    dev: &mut D,
    ctx: &mut Context,
    p: P,
    out: &mut ArrayVec<u8, N>,
) -> Result<()> {
    #[cfg(kani)]
    {
        park(p);
        let mut t = Tokenizer::new_params(b"").peekable();
        let ru = out.response_unit()?;
        cmd.query(dev, ctx, Parameters::with(&mut t), ru)
    }
    #[cfg(not(kani))]
    {
        let lit = literal(p);
        let mut t = Tokenizer::new_params(lit.as_bytes()).peekable();
        let ru = out.response_unit()?;
        cmd.query(dev, ctx, Parameters::with(&mut t), ru)
    }
}

/// independent decoder of an unsigned NR1 response
pub fn decode_nr1(b: &[u8]) -> Option<u64> {
    if b.is_empty() || b.len() > 19 {
        return None;
    }
    if b.len() > 1 && b[0] == b'0' {
        return None;
    }
    let mut v: u64 = 0;
    let mut i = 0;
    while i < b.len() {
        if b[i] < b'0' || b[i] > b'9' {
            return None;
        }
        v = v * 10 + (b[i] - b'0') as u64;
        i += 1;
    }
    Some(v)
}
