//! Kani proof wrappers.  Naming: `<property>_<tier q|t>[a]_<what>`; a trailing
//! `a` after the tier letter marks an *attempt* (timeout recorded, never an alarm).
use crate::Sym;

#[cfg(feature = "p_c07")]
mod c07;

/// common epilogue: the verdict of the obligation function is THE assertion
#[macro_export]
macro_rules! verdict {
    ($r:expr) => {{
        let r: crate::R = $r;
        kani::cover!(r.is_ok(), "reach: obligation function returned Ok");
        assert!(r.is_ok(), "obligation violated");
    }};
}
