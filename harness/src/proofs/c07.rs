use super::Sym;
use crate::checks::c07;
use crate::verdict;

macro_rules! kernel {
    ($name:ident, $t:ty) => {
        #[kani::proof]
        #[kani::stub(lexical_core::parse, crate::stubs::lexical_parse_stub)]
        fn $name() {
            verdict!(c07::kernel::<$t, _>(&mut Sym));
        }
    };
}
kernel!(c07_q_kernel_u8, u8);
kernel!(c07_q_kernel_i8, i8);
kernel!(c07_q_kernel_u16, u16);
kernel!(c07_q_kernel_i16, i16);
kernel!(c07_q_kernel_u32, u32);
kernel!(c07_q_kernel_i32, i32);
kernel!(c07_q_kernel_u64, u64);
kernel!(c07_q_kernel_i64, i64);
kernel!(c07_q_kernel_usize, usize);
kernel!(c07_q_kernel_isize, isize);
