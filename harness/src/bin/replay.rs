//! Native replayer: runs one obligation function on the real, unstubbed crates
//! with the inputs of a solver counterexample.
//!
//!   replay --list
//!   replay <check> <hexvec> <hexvec> ...      one hex string per draw ("-" = empty)
//!
//! exit 0 + "NOT-REPRODUCED" | exit 1 + "REPRODUCED: <why>" | exit 3 + "VOID"/"UNDERRUN"

#[cfg(kani)]
fn main() {}

#[cfg(not(kani))]
use scpi_verif::{checks, Replay};
#[cfg(not(kani))]
use std::panic;

#[cfg(not(kani))]
fn unhex(s: &str) -> Vec<u8> {
    if s == "-" {
        return vec![];
    }
    (0..s.len() / 2).map(|i| u8::from_str_radix(&s[2 * i..2 * i + 2], 16).expect("hex")).collect()
}

#[cfg(not(kani))]
fn main() {
    let args: Vec<String> = std::env::args().skip(1).collect();
    let reg = checks::registry();
    if args.first().map(|s| s.as_str()) == Some("--list") {
        for (n, _) in &reg {
            println!("{n}");
        }
        return;
    }
    let name = args.first().expect("usage: replay <check> <hexvec>...");
    let f = match reg.iter().find(|(n, _)| n == name) {
        Some((_, f)) => *f,
        None => {
            println!("UNKNOWN-CHECK {name}");
            std::process::exit(3);
        }
    };
    let vecs: Vec<Vec<u8>> = args[1..].iter().map(|s| unhex(s)).collect();
    let mut src = Replay::new(vecs);
    let res = panic::catch_unwind(panic::AssertUnwindSafe(|| f(&mut src)));
    if src.void {
        println!("VOID: an input assumption of the check does not hold for this case");
        std::process::exit(3);
    }
    if src.underrun {
        println!("UNDERRUN: the case does not match the draws of this check");
        std::process::exit(3);
    }
    match res {
        Ok(Ok(())) => {
            println!("NOT-REPRODUCED");
        }
        Ok(Err(msg)) => {
            println!("REPRODUCED: {msg}");
            std::process::exit(1);
        }
        Err(p) => {
            let m = p
                .downcast_ref::<String>()
                .cloned()
                .or_else(|| p.downcast_ref::<&str>().map(|s| s.to_string()))
                .unwrap_or_else(|| "panic".into());
            println!("REPRODUCED: panic in the code under test: {m}");
            std::process::exit(1);
        }
    }
}
