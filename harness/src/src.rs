//! Source of harness inputs: symbolic under Kani, a recorded byte-vector list natively.

pub trait Src {
    fn u8(&mut self) -> u8;
    fn u16(&mut self) -> u16;
    fn u32(&mut self) -> u32;
    fn u64(&mut self) -> u64;
    fn bool(&mut self) -> bool {
        self.u8() & 1 == 1
    }
    fn i16(&mut self) -> i16 {
        self.u16() as i16
    }
    fn f32(&mut self) -> f32 {
        f32::from_bits(self.u32())
    }
    fn f64(&mut self) -> f64 {
        f64::from_bits(self.u64())
    }
    /// constrain the inputs (kani::assume); natively a failed assumption makes the case void
    fn assume(&mut self, c: bool);
}

pub fn bytes<const N: usize, S: Src>(s: &mut S) -> [u8; N] {
    let mut a = [0u8; N];
    let mut i = 0;
    while i < N {
        a[i] = s.u8();
        i += 1;
    }
    a
}

#[cfg(kani)]
pub struct Sym;

#[cfg(kani)]
impl Src for Sym {
    fn u8(&mut self) -> u8 {
        kani::any()
    }
    fn u16(&mut self) -> u16 {
        kani::any()
    }
    fn u32(&mut self) -> u32 {
        kani::any()
    }
    fn u64(&mut self) -> u64 {
        kani::any()
    }
    fn assume(&mut self, c: bool) {
        kani::assume(c)
    }
}

/// Native replay of a counterexample: one byte vector per draw, little endian.
#[cfg(not(kani))]
pub struct Replay {
    pub vecs: std::vec::Vec<std::vec::Vec<u8>>,
    pub pos: usize,
    pub void: bool,
    pub underrun: bool,
}

#[cfg(not(kani))]
impl Replay {
    pub fn new(vecs: std::vec::Vec<std::vec::Vec<u8>>) -> Self {
        Replay { vecs, pos: 0, void: false, underrun: false }
    }
    fn take(&mut self, n: usize) -> u64 {
        let v = match self.vecs.get(self.pos) {
            Some(v) => v.clone(),
            None => {
                self.underrun = true;
                std::vec![0u8; n]
            }
        };
        self.pos += 1;
        let mut x = 0u64;
        for (i, b) in v.iter().take(8).enumerate() {
            x |= (*b as u64) << (8 * i);
        }
        if v.len() != n {
            self.underrun = true;
        }
        x
    }
}

#[cfg(not(kani))]
impl Src for Replay {
    fn u8(&mut self) -> u8 {
        self.take(1) as u8
    }
    fn u16(&mut self) -> u16 {
        self.take(2) as u16
    }
    fn u32(&mut self) -> u32 {
        self.take(4) as u32
    }
    fn u64(&mut self) -> u64 {
        self.take(8)
    }
    fn assume(&mut self, c: bool) {
        if !c {
            self.void = true;
        }
    }
}
