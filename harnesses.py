"""Harness table: the single place where a property's harness list, tiers, caps and bounds live.

Naming: <property>_<q|t>[a]_<what>.   q = quick tier, t = thorough tier only;
kind 'required' harnesses define the claimed bound (a timeout is INCONCLUSIVE, exit 2);
kind 'attempt' harnesses are capped explorations whose timeout is recorded as "not reached".
"""

ALL = []


def H(name, prop, desc, bounds, tier="q", kind="required", cap_s=300, mem_gb=3, family=None, also=(), stubs=(),
      assumes=(), sample=False, noalloc=False, covers_may_fail=()):
    ALL.append(dict(name=name, prop=prop, desc=desc, bounds=bounds, tier=tier, kind=kind, cap_s=cap_s, mem_gb=mem_gb,
                    family=family or ("p_" + prop.lower()), also=list(also), stubs=list(stubs), assumes=list(assumes),
                    sample=sample, noalloc=noalloc, covers_may_fail=list(covers_may_fail)))


def for_property(pid, tier):
    tiers = ("q",) if tier == "quick" else ("q", "t")
    return [h for h in ALL if (h["prop"] == pid or pid in h["also"]) and h["tier"] in tiers]


def features_for(hs):
    f = {h["family"] for h in hs}
    if not all(h["noalloc"] for h in hs):
        f.add("full")
    return sorted(f)


def by_name(n):
    for h in ALL:
        if h["name"] == n:
            return h
    return None


FLOAT_STUB = ("lexical_core::parse::<f32|f64> -> contract stub: returns the harness's symbolic float "
              "(integer requests still run the real lexical-core)")

INTS = ["u8", "i8", "u16", "i16", "u32", "i32", "u64", "i64", "usize", "isize"]

# ---------------------------------------------------------------------------- C07
for t in INTS:
    H(f"c07_q_kernel_{t}", "C07",
      f"{t}::try_from(DecimalNumericProgramData) on the float fallback path: for EVERY non-NaN "
      f"{'f32' if t in ('u8', 'i8', 'u16', 'i16') else 'f64'} the literal can denote, the result is the nearest "
      f"integer (either neighbour at a tie) when representable and -222 otherwise",
      "all 2^32 f32 / 2^64 f64 bit patterns except NaN; one query", cap_s=120, mem_gb=2, stubs=[FLOAT_STUB],
      also=["C01"], sample=(t in ("i32", "u8")))

PROPS = {
    "C07": {
        "bounds": {"quick": "fallback kernel: every non-NaN float; fast path: sign + <= 4 digits; non-decimal: any u64; "
                            "character data <= 8 bytes",
                   "thorough": "same, fast path sign + <= 6 digits"},
        "outside": "the literal -> double step of lexical-core (trusted contract; closed concretely by the native replay "
                   "of every counterexample); NR1 literals longer than the stated digit count",
        "assumptions": ["lexical_core::parse::<f32|f64> returns the correctly rounded value of the literal (contract stub)"],
    },
}

PROPS["C07"].update({
    "level_text": "Bounded model checking of the real conversion code: for each of the ten integer targets one SAT query "
                  "ranges over every non-NaN float the literal can denote (2^32 / 2^64 values) and asserts an exact "
                  "integer-arithmetic rounding oracle; further queries cover the NR1 fast path, non-decimal literals "
                  "and character data. This is the right level because the defects live at single values (0.0, the "
                  "bounds +-0.5, 2^63) that sampling does not hit.",
    "level_note": "Trusted: Kani/CBMC/CaDiCaL; lexical-core's float parser returns the correctly rounded value of the "
                  "literal (stubbed by contract under Kani, real in the native replay); bounds on NR1 digit count.",
})

# properties whose check is still being built (kept current as the work proceeds)
NOT_YET = {}
