"""Harness table: the single place where a property's harness list, tiers, caps and bounds live.

Naming: <property>_<q|t>[a]_<what>.   q = quick tier, t = thorough tier only;
kind 'required' harnesses define the claimed bound (a timeout is INCONCLUSIVE, exit 2);
kind 'attempt' harnesses are capped explorations whose timeout is recorded as "not reached".
"""

ALL = []


STUBSETS = {
    # name -> (kani attributes, human description for the evidence file)
    "none": ([], []),
    "nextdata": (["#[kani::stub(scpi::parser::parameters::Parameters::next_data, crate::stubs::next_data_stub)]"],
                 ["Parameters::next_data::<T> -> contract stub: returns the harness's symbolic u8/u16, or -109 / -222 "
                  "(that the real lexer + TryFrom deliver the denoted value is decided in C04/C07)"]),
    "ascii": (["#[kani::stub(<[u8]>::is_ascii, crate::stubs::is_ascii_stub)]"],
              ["<[u8]>::is_ascii -> the byte loop of its documentation (core's word-at-a-time implementation after "
               "align_offset is intractable for CBMC)"]),
    "tok": (["#[kani::stub(<scpi::parser::tokenizer::Tokenizer as core::iter::Iterator>::next, "
             "crate::checks::rl::tokenizer_next_stub)]"],
            ["<Tokenizer as Iterator>::next -> token-script stub: the message bytes are one token code per byte, restricted "
             "by `lexable` to sequences the real lexer can emit (that automaton is C04's obligation); the native replay "
             "spells the script out and runs the real lexer"]),
    "float": (["#[kani::stub(lexical_core::parse, crate::stubs::lexical_parse_stub)]"],
              ["lexical_core::parse::<f32|f64> -> contract stub returning the harness's symbolic float (integer "
               "requests still run the real lexical-core)"]),
}


def H(name, prop, fn, desc, bounds, tier=None, kind=None, cap_s=300, mem_gb=3, family=None, also=(), stubset="none",
      unwind=None, assumes=(), sample=False, noalloc=False, covers_may_fail=(), full_only=True):
    """name: <prop>_<q|t>[a]_<what>; fn: Rust path of the obligation function below crate::checks"""
    parts = name.split("_")
    tier = tier or parts[1][0]
    kind = kind or ("attempt" if parts[1].endswith("a") else "required")
    assert tier in ("q", "t", "r") and name.startswith(prop.lower() + "_") or family  # r = replay-only (never scheduled)
    assert not any(h["name"] == name for h in ALL), name
    ALL.append(dict(name=name, prop=prop, fn=fn, desc=desc, bounds=bounds, tier=tier, kind=kind, cap_s=cap_s,
                    mem_gb=mem_gb, family=family or ("p_" + prop.lower()), also=list(also), stubset=stubset,
                    stubs=STUBSETS[stubset][1], unwind=unwind, assumes=list(assumes), sample=sample, noalloc=noalloc,
                    covers_may_fail=list(covers_may_fail), full_only=full_only and not noalloc))


def for_property(pid, tier):
    tiers = ("q",) if tier == "quick" else ("q", "t")
    return [h for h in ALL if (h["prop"] == pid or pid in h["also"]) and h["tier"] in tiers]


def features_for(hs):
    f = {h["family"] for h in hs}
    if not all(h["noalloc"] for h in hs):
        f.add("full")
    return sorted(f)


def by_name(n):
    for h in ALL:
        if h["name"] == n:
            return h
    return None


FLOAT_STUB = ("lexical_core::parse::<f32|f64> -> contract stub: returns the harness's symbolic float "
              "(integer requests still run the real lexical-core)")

INTS = ["u8", "i8", "u16", "i16", "u32", "i32", "u64", "i64", "usize", "isize"]

# ---------------------------------------------------------------------------- C03
for L, tier, cap in ((4, "q", 300), (6, "q", 300), (12, "q", 600)):
    H(f"c03_{tier}_matcher_{L}", "C03", f"c03::matcher::<{L}, _>",
      f"mnemonic_match / mnemonic_compare == independent reference (split trailing digits, "
      f"short or long form ignoring case, absent suffix == 1) for every SCPI-shaped mnemonic of 1..{L} bytes and every "
      f"candidate of 0..{L} bytes over [A-Za-z0-9_]", f"mnemonic <= {L} bytes x candidate <= {L} bytes, both lengths "
      f"symbolic", cap_s=cap, mem_gb=4, unwind=L + 2, sample=(L == 4))
for L in (6,):
    H(f"c03_q_header_{L}", "C03", f"c03::header::<{L}, _>",
      "Token::match_program_header == the reference for ProgramMnemonic / CharacterProgramData tokens and false for "
      "every other token kind", f"mnemonic <= {L} x token text <= {L} bytes", cap_s=400, mem_gb=4, unwind=L + 2,
      also=["C02"])

# ---------------------------------------------------------------------------- C04 (K-lex; also C01, C14)
MODES = {0: "inside a header", 1: "data part", 2: "inside a common command header", 3: "data part of a common command"}
CLASSES = {0: "any", 1: "letter", 2: "digit", 3: "sign", 4: "dot", 5: "#H", 6: "#Q", 7: "#B", 8: "#0 block", 9: "#1 block",
           10: "#2 block", 11: "#9 block", 12: "double quote", 13: "single quote", 14: "expression", 15: "common '*'",
           16: "colon", 17: "query", 18: "semicolon", 19: "comma", 20: "space", 21: "newline", 22: "other ASCII",
           23: "non-ASCII", 24: "number + suffix", 25: "number + space"}


def KLEX(n, mode, cls, tier, cap=600, mem=4, unwind=None, kind=None):
    a = "a" if kind == "attempt" else ""
    name = f"c04_{tier}{a}_lex_m{mode}_c{cls}_n{n}"
    first = "all bytes symbolic" if cls == 0 else f"first byte(s) fixed to the representative of class '{CLASSES[cls]}', rest symbolic"
    H(name, "C04", f"c04::step::<{n}, {mode}, {cls}, _>",
      f"one step of the real Tokenizer from state '{MODES[mode]}' on {n} remaining bytes ({first}) == reference 488.2 lexer "
      f"step: element type, exact payload byte range, cursor, mode afterwards, non-decimal value; violations of 488.2 "
      f"syntax rejected with a command error; no panic, progress",
      f"remaining input exactly {n} bytes, {first}", cap_s=cap, mem_gb=mem, unwind=unwind or max(n + 3, 8),
      also=[], sample=(mode == 0 and cls == 0 and n == 2))


# fully symbolic content, one instance per length
for n in range(0, 5):
    KLEX(n, 0, 0, "q", cap=600, mem=4)
for n in (5, 6):
    KLEX(n, 0, 0, "t", cap=3600, mem=8)
for n in range(0, 3):
    KLEX(n, 1, 0, "q", cap=900, mem=6)
for n in (3, 4):
    KLEX(n, 1, 0, "t", cap=5400, mem=14)
KLEX(5, 1, 0, "t", cap=5400, mem=16)
for n in (1, 2, 3):
    KLEX(n, 2, 0, "q", cap=600, mem=4)
KLEX(1, 3, 0, "q", cap=900, mem=6)
KLEX(2, 3, 0, "t", cap=2400, mem=6)
# class-representative dispatch byte, longer remaining input (boundaries: 12/13 characters, block header digits)
for cls, n in ((1, 6), (1, 13), (1, 14), (15, 13), (15, 14), (16, 4), (17, 4), (18, 5), (20, 5)):
    KLEX(n, 0, cls, "q", cap=600, mem=4)
for cls, n in ((1, 6), (1, 13), (1, 14), (2, 5), (4, 5), (24, 8), (25, 6), (5, 6), (6, 6), (7, 6), (8, 5),
               (9, 6), (10, 8), (12, 6), (13, 6), (14, 6), (19, 4), (18, 4), (20, 4), (22, 3), (23, 3), (21, 3)):
    KLEX(n, 1, cls, "q", cap=900, mem=6)
for cls, n in ((3, 5), (24, 14)):
    KLEX(n, 1, cls, "t", cap=2400, mem=6)
for cls, n in ((2, 8), (3, 8), (24, 15), (5, 10), (5, 20), (6, 25), (10, 14), (11, 12), (12, 10), (14, 10)):
    KLEX(n, 1, cls, "t", cap=3600, mem=10)

# ---------------------------------------------------------------------------- C06 (kernel)
for L in (0, 1, 2, 3, 4):
    H(f"c06_{'q' if L < 3 else 't'}_params_l{L}", "C06", f"c06::params::<{L}, _>",
      f"Parameters over every lexable token stream of {L} tokens after a header (data, ',', ';', lexer error) driven by 3 "
      f"calls, each next_token (required) or next_optional_token: the i-th successful call returns the i-th data element "
      f"before the first ';', a required call past it -109, an optional one None, a lexer error as is; only data elements "
      f"are ever handed out (parser_unreachable! is dead)", f"all lexable token scripts of length {L}; all 8 usage scripts",
      cap_s=900, mem_gb=7, stubset="tok", unwind=max(L + 3, 5), sample=(L == 1))

# ---------------------------------------------------------------------------- C07
def F(t):
    return "f32" if t in ("u8", "i8", "u16", "i16") else "f64"


for t in INTS:
    H(f"c07_q_kernel_{t}", "C07", f"c07::kernel::<{t}, _>",
      f"{t}::try_from(DecimalNumericProgramData) on the float fallback path: for EVERY non-NaN {F(t)} the literal can "
      f"denote, the result is the nearest integer (either neighbour at a tie) when representable and -222 otherwise",
      f"all non-NaN {F(t)} bit patterns; one query", cap_s=120, mem_gb=2, stubset="float",
      sample=(t in ("i32", "u8")))
    H(f"c07_q_nondec_{t}", "C07", f"c07::nondecimal::<{t}, _>",
      f"{t}::try_from(NonDecimalNumericProgramData(v)) == exact value if v <= MAX else -222", "all 2^64 values",
      cap_s=120, mem_gb=2)
    H(f"c07_q_other_{t}", "C07", f"c07::otherkinds::<{t}, _>",
      f"{t}: suffixed literal -> -138, string/block/expression -> -104", "3 symbolic payload bytes, 4 token kinds",
      cap_s=120, mem_gb=2, also=["C08"])
    for n in (3, 7):
        H(f"c07_q_char{n}_{t}", "C07", f"c07::chardata::<{t}, {n}, _>",
          f"{t} from character data of {n} bytes: MIN/MAX keyword (short/long, any case) -> bound, anything else -104",
          f"all 2^{8*n} byte strings of length {n}", cap_s=120, mem_gb=2, unwind=9, also=["C08"])
H("c07_q_bool_numeric", "C07", "c07::bool_numeric", "bool from a decimal literal == 'rounds to non-zero', for every "
  "non-NaN f64", "all non-NaN f64", cap_s=120, mem_gb=2, stubset="float", also=["C08"])
for t, n, tier in [("u8", 3, "q"), ("u8", 4, "q"), ("i8", 4, "q"), ("u16", 5, "q"), ("i16", 5, "q"), ("i32", 5, "q"),
                   ("u64", 5, "q"), ("i16", 6, "t"), ("i32", 9, "ta")]:
    H(f"c07_{tier}_nr1_{t}_n{n}", "C07", f"c07::nr1::<{t}, {n}, _>",
      f"{t} from every NR1 literal of exactly {n} bytes (optional sign, digits) through the REAL lexical-core integer "
      f"parser == reference accumulator value, or -222 when outside the type", f"all NR1 literals of {n} bytes",
      cap_s=(1800 if tier == "ta" else 600), mem_gb=4, stubset="float", unwind=12)

# ---------------------------------------------------------------------------- C08 (K-conv)
for t in ("f32", "f64"):
    H(f"c08_q_passthrough_{t}", "C08", f"c08::passthrough_{t}", f"{t}::try_from(decimal literal) returns bit-for-bit what "
      f"the float parser returns for the literal (incl. +-infinity for out-of-range magnitudes) and maps its error kinds "
      f"to -222 / -121 / -120", f"all {t} bit patterns; 4 parser error kinds", cap_s=200, mem_gb=2, stubset="float",
      sample=(t == "f32"))
for n in (1, 2, 3, 4, 5, 6, 7, 8, 9):
    H(f"c08_q_float_keywords_{n}", "C08", f"c08::float_keywords::<{n}, _>", f"f32/f64 from character data of {n} bytes: "
      f"INF|INFINITY, NINF|NINFINITY, NAN, MAX|MAXIMUM, MIN|MINIMUM in any case -> the special value, anything else -104",
      f"all 2^{8*n} byte strings of length {n}", cap_s=300, mem_gb=3, unwind=12)
for n in (1, 2, 3, 4):
    H(f"c08_q_bool_chars_{n}", "C08", f"c08::bool_chars::<{n}, _>", f"bool from character data of {n} bytes: ON / OFF in "
      f"any case, everything else -224", f"all byte strings of length {n}", cap_s=200, mem_gb=2, unwind=n + 3)
H("c08_q_accept_matrix", "C08", "c08::accept_matrix", "every (target, element type) pair of &[u8], &str, Arbitrary, "
  "Character, Expression, NumericList, ChannelList, f32, f64, bool x character / suffixed / non-decimal / string / block / "
  "expression data: Ok (with the payload unchanged) only for the documented kinds, the documented command error otherwise",
  "3 symbolic payload bytes, any u64 non-decimal value", cap_s=600, mem_gb=4, unwind=8)

# ---------------------------------------------------------------------------- C09 (K-fmt)
for t in INTS:
    wide = t not in ("u8", "i8", "u16", "i16")
    fams = [(1, "t" if t in ("usize", "isize") else "q", "|v| < 100000"), (2, "t", "within 100000 of MIN/MAX")] + ([(0, "ta", "every value")] if t in ("u32", "i64") else []) if wide else [(0, "q", "every value")]
    for fam, tier, fd in fams:
        H(f"c09_{tier}_dec_{t}_f{fam}", "C09", f"c09::dec_{t}::<{fam}, _>",
          f"{t} formatted as decimal response data: an independent <NR1> decoder returns the value ({fd})", f"{t}: {fd}",
          cap_s=(900 if tier == "q" else 1800), mem_gb=3, unwind=24, sample=(t == "u8"))
    for radix in (16, 8, 2):
        small = not wide
        tier = "q" if (small or radix == 16) else "ta"
        if tier == "ta" and t not in ("u32", "u64"):
            continue
        if tier == "q" and t in ("i32", "i64", "isize", "usize"):
            tier = "t"   # the signed wide types repeat the unsigned ones' code path for non-negative values
        H(f"c09_{tier}_radix{radix}_{t}", "C09", f"c09::int_nondecimal::<{t}, {radix}, _>",
          f"{t} (non-negative) formatted as #{'H' if radix == 16 else 'Q' if radix == 8 else 'B'} response data: an independent "
          f"shift decoder returns the value", f"every non-negative {t}", cap_s=(900 if tier == "q" else 1800), mem_gb=3,
          unwind=(20 if small else 70))
H("c09_q_bool_sentinels", "C09", "c09::bool_and_sentinels", "bool -> 0/1; NaN -> 9.91E+37, +-infinity -> +-9.9E+37 exactly, "
  "for f32 and f64", "both bools; every non-finite f32/f64 bit pattern", cap_s=300, mem_gb=3, unwind=12)
for n, q, tier in ((0, 0, "q"), (1, 0, "q"), (2, 0, "q"), (3, 0, "t"), (4, 0, "t"), (5, 0, "ta"),
                   (1, 1, "q"), (2, 1, "t"), (3, 1, "t"), (3, 2, "ta")):
    qd = "without a double quote" if q == 0 else f"holding {q} double quote(s)"
    H(f"c09_{tier}_string_n{n}_q{q}_dec", "C09", f"c09::string::<{n}, {q}, {n + 2 + q}, false, _>",
      f"ASCII byte string of {n} bytes {qd}: the quoted response decodes (independent un-doubling decoder) to the original "
      f"bytes", f"all ASCII strings of {n} bytes {qd}", cap_s=(900 if tier == "q" else 2400), mem_gb=(4 if n < 4 else 10),
      unwind=n * 2 + 8, stubset="ascii")
    if q == 0:
        tier = "t" if (tier == "q" and n == 2) else tier
        H(f"c09_{tier}_string_n{n}_q{q}_own", "C09", f"c09::string::<{n}, {q}, {n + 2 + q}, true, _>",
          f"ASCII byte string of {n} bytes {qd}: the response re-lexes (own parser) to one string element with the original "
          f"bytes", f"all ASCII strings of {n} bytes {qd}", cap_s=(900 if tier == "q" else 2400),
          mem_gb=(4 if n < 4 else 10), unwind=n * 2 + 8, stubset="ascii")
for n, q in ((1, 1),):
    H(f"c09_q_kf14_string_n{n}_q{q}_own", "C09", f"c09::string::<{n}, {q}, {n + 2 + q}, true, _>",
      f"WITNESS of known finding F14: ASCII string of {n} bytes holding a double quote comes back from the own parser with "
      f"the quote still doubled (tokens are zero-copy slices of the input)", f"all ASCII strings of {n} bytes with {q} "
      f"double quote(s)", cap_s=900, mem_gb=6, unwind=n * 2 + 8, stubset="ascii")
for n in (0, 1, 5, 9, 10, 12):
    m = 2 + len(str(n)) + n
    H(f"c09_q_block_n{n}", "C09", f"c09::block::<{n}, {m}, _>", f"definite-length block of {n} arbitrary bytes: header "
      f"states the length with the right digit count, payload identical, own parser returns the payload",
      f"every payload of {n} bytes (header 1 -> 2 length digits at 10)", cap_s=900, mem_gb=2, unwind=max(n + 6, 24))
for n in (1, 3, 6, 12):
    H(f"c09_q_char_n{n}", "C09", f"c09::char_expr::<{n}, {n + 2}, true, _>", f"Character response data of {n} bytes is "
      f"emitted verbatim", f"all valid character data of {n} bytes", cap_s=900, mem_gb=2, unwind=n + 8)
for n in (0, 1, 3, 6):
    H(f"c09_q_expr_n{n}", "C09", f"c09::char_expr::<{n}, {n + 2}, false, _>", f"Expression response data of {n} bytes is "
      f"emitted in parentheses and read back by the own parser (lexer + Expression::try_from)",
      f"all valid expression content of {n} bytes", cap_s=900, mem_gb=2, unwind=n + 8)
for l, tier in ((0, "q"), (1, "q"), (2, "t"), (3, "ta")):
    H(f"c09_{tier}_list_l{l}", "C09", f"c09::list::<{l}, _>", f"ArrayVec of {l} u16 values: comma-joined decimal elements in "
      f"order; empty list -> error", f"all u16 element values", cap_s=(1200 if tier == "q" else 2400), mem_gb=5, unwind=24)
for ml, xl, tier in ((0, 0, "q"), (1, 0, "t"), (2, 0, "t"), (1, 1, "t"), (3, 0, "ta")):
    H(f"c09_{tier}_error_item_m{ml}_x{xl}", "C09", f"c09::error_item::<{ml}, {xl}, _>", f"error-queue item: custom error, "
      f"any number, {ml}-byte symbolic printable message" + (f", {xl}-byte symbolic extended text" if xl else "") +
      ": formatted as code,\"message[;extended]\": the code decodes to the number, the text is a well-formed quoted "
      "string (quotes doubled) that decodes to the message", "all i16 numbers; all printable message / extended bytes "
      "(incl. the double quote)", cap_s=(900 if tier == "q" else 2400), mem_gb=(6 if tier == "q" else 16), unwind=16,
      also=["C13"], stubset="ascii")
H("c09_q_std_messages_plain", "C09", "c09::std_messages_plain", "every standard error message is printable ASCII without a "
  "double quote (so formatting a standard error item is the custom-message case)", "all standard variants", cap_s=600,
  mem_gb=4, unwind=64, also=["C13"])

# ---------------------------------------------------------------------------- C10 (K-fmt part)
for u, tier in ((1, "q"), (2, "q"), (3, "t")):
    H(f"c10_{tier}_framing_array_u{u}", "C10", f"c10::framing_array::<{u}, _>",
      f"0..{u} response units, each with no / one-level / two-level header and 1..3 data elements (bool, character "
      f"data, or a one-byte block ending in ';'), through the real message_start / response_unit / header / data / finish / message_end on an ArrayVec: bytes "
      f"== reference framer (';' between units, ',' between data, header + space, one final NL iff output)",
      f"all scripts of <= {u} units x <= 3 data", cap_s=(900 if tier == "q" else 5400), mem_gb=(5 if u < 3 else 10),
      unwind=22 * u + 4, sample=(u == 1))
H("c10_ta_framing_vec_u1", "C10", "c10::framing_vec::<1, _>", "same script on the growable Vec<u8> formatter",
  "all scripts of <= 1 unit x <= 3 data", cap_s=1800, mem_gb=8, unwind=30)

# ---------------------------------------------------------------------------- C11 (K-fmt part; built WITHOUT alloc)
for cap in range(0, 9):
    H(f"c11_q_formatter_cap{cap}", "C11", f"c11::formatter::<{cap}, _>",
      f"4 arbitrary primitive writes (push_byte, push_str <= 3 bytes, data_separator, message_end, response_unit) on "
      f"ArrayVec<u8,{cap}> vs a reference byte vector: a write that fits appends exactly its bytes, one that does not "
      f"returns -225 and leaves the buffer unchanged; never beyond the capacity, never a panic",
      f"capacity {cap}; all 4-step scripts", cap_s=600, mem_gb=3, unwind=14, noalloc=True, sample=(cap == 3))
for el in ("u16", "i32", "hex_u16", "bool", "string", "block", "char_expr", "error", "list", "enum"):
    H(f"c11_{'ta' if el == 'error' else 'q'}_element_{el}", "C11", f"c11::element_{el}",
      f"ResponseData element '{el}' formatted into a formatter with a symbolic byte budget: fits => complete and identical "
      f"bytes; does not fit => returns exactly the formatter's -225, written bytes are a prefix, no write after the failure",
      "every budget 0..48; element value symbolic", cap_s=(2400 if el == "error" else 900),
      mem_gb=(10 if el in ("error", "string") else 5), unwind=(12 if el == "string" else 20), noalloc=True,
      stubset=("ascii" if el in ("string", "error", "char_expr") else "none"))
for cap in (0, 1, 3, 6, 7):
    H(f"c11_q_unit_cap{cap}", "C11", f"c11::unit::<{cap}, _>", f"a response unit of two data elements (u16, bool) on "
      f"ArrayVec<u8,{cap}>: fits => bytes of the growable result; does not fit => finish returns -225 (first error latched)",
      f"capacity {cap}; every u16 / bool", cap_s=600, mem_gb=3, unwind=12, noalloc=True, also=["C05"])

# ---------------------------------------------------------------------------- C12
for n in range(1, 7):
    for l in range(0, n + 1):
        tier = "q" if n <= 4 else "t"
        H(f"c12_{tier}_array_n{n}_l{l}", "C12", f"c12::array_step::<{n}, {l}, _>",
          f"ArrayErrorQueue<{n}> holding {l} arbitrary errors (custom any i16 with/without extended text, standard): one "
          f"arbitrary push/pop/clear vs the FIFO specification incl. -350 marking of the newest slot when full",
          f"capacity {n}, length {l}, all error contents, all operations; one inductive step", cap_s=200, mem_gb=2,
          unwind=8, sample=(n == 2 and l == 2))
for l in range(0, 6):
    tier = "q" if l <= 3 else "t"
    H(f"c12_{tier}_vec_l{l}", "C12", f"c12::vec_step::<{l}, _>",
      f"VecErrorQueue holding {l} arbitrary errors: one arbitrary push/pop/clear vs the FIFO specification",
      f"length {l}, all error contents, all operations", cap_s=200, mem_gb=2, unwind=8)

# ---------------------------------------------------------------------------- C13
for ql in (0, 1, 2):
    H(f"c13_q_push_error_q{ql}", "C13", f"c13::push_error::<{ql}, _>", f"Device::handle_error on the documented wiring "
      f"(-> push_error) from an arbitrary device with {ql} of 2 queue slots used, arbitrary error (custom any i16 with/"
      f"without extended text, standard): ESR |= class bit, exactly one item appended (-350 marker when full), nothing "
      f"else changes", "all register states, all error numbers", cap_s=200, mem_gb=2, unwind=12, sample=(ql == 1))
for ql in (0, 1, 2, 3):
    H(f"c13_{'q' if ql < 2 else 't'}_next_q{ql}", "C13", f"c13::next::<{ql}, _>", f"SYSTem:ERRor[:NEXT]? called directly with {ql} queued custom "
      f"errors of arbitrary number: response decodes (independent decoder) to the oldest item, exactly it is removed; "
      f"empty -> 0,\"No error\"", "all error numbers, all register states; queue length concrete", cap_s=600, mem_gb=4,
      unwind=20)
    H(f"c13_q_count_q{ql}", "C13", f"c13::count::<{ql}, _>", f"SYSTem:ERRor:COUNt? with {ql} queued errors: answers "
      f"{ql}, changes nothing", "all error numbers, all register states", cap_s=300, mem_gb=3, unwind=12)
H("c13_q_count_any", "C13", "c13::count_any", "SYSTem:ERRor:COUNt? on a device whose queue reports an arbitrary number of "
  "unread items (< 100000): the response decodes to exactly that number", "all register states; any count < 100000",
  cap_s=600, mem_gb=4, unwind=12)
for ql, tier in ((0, "q"), (1, "q"), (2, "ta")):
    H(f"c13_{tier}_all_q{ql}", "C13", f"c13::all::<{ql}, _>", f"SYSTem:ERRor:ALL? with {ql} queued errors: all items in "
      f"order, queue emptied; empty -> 0,'No error'", "error numbers -999..-100 (fixed item width); queue length concrete",
      cap_s=(900 if tier == "q" else 2400), mem_gb=(5 if tier == "q" else 12), unwind=12)

# ---------------------------------------------------------------------------- C14
H("c14_q_custom_mask", "C14", "c14::custom_mask", "Error::custom(c,_).esr_mask() and ErrorCode::Custom(c,_).esr_mask() "
  "== IEEE 488.2 class table, get_code()==c", "all 65536 error numbers", cap_s=120, mem_gb=2, sample=True)
H("c14_q_lookup", "C14", "c14::lookup", "ErrorCode::get_error(c)=Some(x) => x.get_code()==c and x.esr_mask()==class "
  "table(c), also through Error::new(x)", "all 65536 error numbers", cap_s=120, mem_gb=2, sample=True)
H("c14_q_variants", "C14", "c14::variants", "every standard ErrorCode variant (list regenerated from error.rs on every "
  "run): declared code/message, get_error(code)==Some(variant), class bit", "all standard variants (symbolic index)",
  cap_s=400, mem_gb=5, unwind=48)

# ---------------------------------------------------------------------------- C15
H("c15_q_register_ops", "C15", "c15::register_ops", "EventRegister::{set_condition, set_condition_bits, "
  "clear_condition_bits, clear_event, preset} from an arbitrary register vs a per-bit latch specification",
  "all 2^80 register states x all 16-bit arguments; one inductive step", cap_s=120, mem_gb=2, sample=True)
for ques in ("false", "true"):
    nm = "ques" if ques == "true" else "oper"
    H(f"c15_q_commands_{nm}", "C15", f"c15::commands::<{ques}, _>",
      f"EVENt?/CONDition?/ENABle[?]/NTRansition[?]/PTRansition[?] of the {nm.upper()} set and STATus:PRESet called "
      f"directly on an arbitrary device: response value (bit 15 clear), read-and-clear, write-read-back, frame conditions",
      "all register states of both sets, ESR/ESE/SRE, all u16 parameters, missing / out-of-range parameter",
      cap_s=600, mem_gb=4, stubset="nextdata", unwind=12)

# ---------------------------------------------------------------------------- C16
for ql in (0, 1):
    H(f"c16_q_stb_q{ql}", "C16", f"c16::stb::<{ql}, _>", f"scpi_stb() and *STB? (symbolic message-available flag) from "
      f"an arbitrary device with {ql} queued error(s) == bit-by-bit 488.2 status byte incl. MSS; reading changes nothing",
      "all ESR/ESE/SRE values, all states of both register sets, MAV both ways", cap_s=300, mem_gb=3, unwind=12,
      sample=True)
for w, nm in ((0, "ese"), (1, "sre")):
    H(f"c16_q_{nm}", "C16", f"c16::enable::<{w}, _>", f"*{nm.upper()} <any u8 | missing | out of range> and *{nm.upper()}? "
      f"from an arbitrary device: stores / reads back, -109 / -222 leave the register, nothing else changes",
      "all register states, all u8 values", cap_s=300, mem_gb=3, stubset="nextdata", unwind=12)
for ql in (0, 2):
    H(f"c16_q_cls_q{ql}", "C16", f"c16::cls::<{ql}, _>", f"*CLS on the documented wiring with {ql} queued error(s): ESR, "
      f"both event registers and the error queue cleared; enable, condition and filter registers untouched",
      "all register states", cap_s=300, mem_gb=3, unwind=12, also=["C15"])
for ql in (0, 1, 2):
    H(f"c16_q_opc_q{ql}", "C16", f"c16::opc::<{ql}, _>", f"*OPC sets ESR bit 0 (and records -800), *OPC? answers 1; "
      f"{ql} queued error(s), capacity 2", "all register states", cap_s=300, mem_gb=3, unwind=12, also=["C13"])
H("c16_q_tst_rst_wai", "C16", "c16::tst_rst_wai", "*TST? answers 0 or the self-test error code (any i16), *RST and *WAI: "
  "no status register or queue change", "all register states, all self-test codes", cap_s=300, mem_gb=3, unwind=12)
H("c16_q_esr", "C16", "c16::esr", "*ESR? returns the ESR and clears exactly it", "all register states", cap_s=300,
  mem_gb=3, unwind=12, also=["C13"])

# ---------------------------------------------------------------------------- C17
for n in (2, 3, 4, 7):
    H(f"c17_q_keywords_{n}", "C17", f"c17::keywords::<{n}, _>", f"NumericValue::<i32>::try_from(character data of {n} "
      f"bytes): MAX|MAXIMUM, MIN|MINIMUM, DEF|DEFAULT, UP, DOWN in any case -> the keyword, everything else converts as "
      f"i32 (-104)", f"all 2^{8*n} strings of {n} bytes", cap_s=200, mem_gb=2, unwind=10, sample=(n == 3))
H("c17_q_underlying", "C17", "c17::underlying", "non-keyword elements convert as the underlying type: #H.. == "
  "i32::try_from, string -> -104", "all u64 non-decimal values", cap_s=200, mem_gb=2, unwind=10)
for t in ("i32", "u8", "f32", "f64"):
    H(f"c17_q_resolve_{t}", "C17", f"c17::resolve_{t}", f"NumericBuilder::<{t}>::finish / finish_with for an arbitrary "
      f"(Value|MAX|MIN|DEF|UP|DOWN, value, min, max, optional default): documented outcome, Ok(x) => min <= x <= max",
      f"all {t} values for value/min/max/default (floats incl. NaN, infinities), min > max allowed", cap_s=200, mem_gb=2,
      sample=(t == "f32"))
H("c17_q_resolve_time", "C17", "c17::resolve_time", "NumericValue<uom Time(f32)>: Value/MAX/MIN against quantity bounds",
  "all f32 values", cap_s=200, mem_gb=2)

# ---------------------------------------------------------------------------- C18
QTYS = ["Potential", "Current", "Power", "Energy", "Charge", "Capacitance", "Inductance", "Resistance", "Conductance",
        "Frequency", "Time", "Angle", "Ratio", "Temperature"]
for q in QTYS:
    lens = [(6, "q", 900)] + ([(12, "ta", 1800)] if q in ("Time", "Energy", "Frequency") else [])
    for L, tier, cap in lens:
        H(f"c18_{tier}_suffix_{q.lower()}_{L}", "C18", f"c18::suffix::<c18::{q}, {L}, _>",
          f"{q} <- (1.5, suffix of 1..{L} symbolic bytes): accepted => the suffix reads as [SCPI multiplier]"
          f"[SCPI unit of the quantity] and the value is 1.5 scaled accordingly (M = milli except MHZ/MOHM); every "
          f"suffix the library documents is accepted in any letter case; otherwise an error",
          f"suffix <= {L} bytes over the suffix alphabet; number fixed to 1.5",
          cap_s=cap, mem_gb=4, stubset="float", unwind=14, sample=(q == "Energy" and L == 6))
    if q in ("Time", "Ratio", "Potential"):
      H(f"c18_ta_scale_{q.lower()}", "C18", f"c18::scale::<c18::{q}, _>",
      f"{q}: for each suffix the library documents (concrete text) and EVERY moderate f32 the value is the number scaled "
      f"by the suffix's SCPI multiplier and unit (relative tolerance 2e-6)", "number any f32 with |v| in [1e-15,1e15] or 0; "
      "documented suffixes", cap_s=1800, mem_gb=4, stubset="float", unwind=14)
    H(f"c18_q_bare_{q.lower()}", "C18", f"c18::bare_and_other::<c18::{q}, _>",
      f"{q}: a bare number is taken in the base unit; character/string/block/expression/non-decimal elements are rejected",
      "number any moderate f32; 3 symbolic payload bytes", cap_s=300, mem_gb=3, stubset="float", unwind=8)
H("c18_q_amplitude_5", "C18", "c18::amplitude::<5, _>", "Amplitude<ElectricPotential>: PK / PP / RMS tails (any case) "
  "classify Peak / PeakToPeak / Rms with the remaining unit converted as usual and the number unaltered",
  "suffix <= 5 alphanumeric bytes; number fixed to 1.5", cap_s=900, mem_gb=5, stubset="float", unwind=9)
H("c18_q_decibel_4", "C18", "c18::decibel::<4, _>", "Db<f32, ElectricPotential>: DBV/DBMV/DBUV -> Logarithmic(number "
  "unaltered, 1 V/mV/uV), other suffixes -> Linear(plain conversion) or error, bare number -> None(number)",
  "suffix <= 4 alphanumeric bytes; number fixed to 1.5", cap_s=900, mem_gb=5, stubset="float", unwind=8)

# ---------------------------------------------------------------------------- C19 (K-expr; also C01)
for n, tier in ((0, "q"), (1, "q"), (2, "q"), (3, "q"), (4, "q"), (5, "q"), (6, "q"), (7, "t"), (8, "t")):
    H(f"c19_{tier}_chan_step_n{n}", "C19", f"c19::chan_step::<{n}, _>",
      f"one ChannelList iteration step from an arbitrary state (remaining {n} symbolic bytes, first-entry flag) == "
      f"reference SCPI-99 8.3.2 step: entry kind, dimension counts, path text, cursor; listed corruptions give an error", f"remaining expression exactly {n} bytes, every byte value",
      cap_s=(900 if tier == "q" else 3600), mem_gb=5, unwind=max(n + 3, 8), also=[], sample=(n == 3))
    H(f"c19_{tier}_num_step_n{n}", "C19", f"c19::num_step::<{n}, _>",
      f"one NumericList iteration step from an arbitrary state (remaining {n} symbolic bytes, first-entry flag) == "
      f"reference SCPI-99 8.3.3 step: entry kind, exact number texts, cursor; listed corruptions give an error",
      f"remaining expression exactly {n} bytes, every byte value", cap_s=(900 if tier == "q" else 3600), mem_gb=5,
      unwind=max(n + 3, 8), also=[])
for n, tier in ((1, "q"), (2, "q"), (3, "q"), (4, "q"), (5, "q"), (6, "t"), (7, "t")):
    H(f"c19_{tier}_spec_iter_n{n}", "C19", f"c19::spec_iter::<{n}, _>",
      f"a channel spec whose text is ANY {n}-byte run of digits, signs and '!': iterating it never panics (C01); when the "
      f"text is well formed the values are its numbers in order, then None; dimension count == text",
      f"spec text exactly {n} bytes over [0-9+-!]", cap_s=(900 if tier == "q" else 3600), mem_gb=5, unwind=n + 4,
      sample=(n == 3))
for n, dim, tier in ((1, 1, "q"), (2, 1, "q"), (3, 2, "q"), (4, 2, "q"), (5, 3, "q"), (5, 2, "t"), (6, 3, "t")):
    H(f"c19_{tier}_spec_convert_n{n}_d{dim}", "C19", f"c19::spec_convert::<{n}, {dim}, _>",
      f"a well-formed channel spec of {n} bytes converted to a {dim}-tuple of isize: every element is the corresponding "
      f"number of the text; other dimensions are refused", f"well-formed spec text of exactly {n} bytes",
      cap_s=(900 if tier == "q" else 3600), mem_gb=5, unwind=n + 4)
H("c19_q_from_token_n4", "C19", "c19::from_token::<4, _>", "ChannelList / NumericList from an expression token: @ prefix, "
  "start state; other element types -104", "4 symbolic bytes", cap_s=300, mem_gb=3, unwind=8, also=["C08"])

# ---------------------------------------------------------------------------- C20
ENUMS = {"E1": "BINary|REAL|ASCii1|ASCii2|L125", "E2": "VOLTage|CURRent", "E3": "ALPHa(u8)|BETA3(u16)|GAMMa",
         "E4": "CHANnel1|CHANnel2|CHANnel10|X|MAXimum|OFF"}
for e, d in ENUMS.items():
    for L, tier in ((6, "q"), (12, "t")):
        H(f"c20_{tier}_select_{e.lower()}_{L}", "C20", f"c20::select::<c20::{e}, {L}, _>",
          f"derive(ScpiEnum) on {{{d}}}: from_mnemonic / TryFrom<Token> of every character datum of 0..{L} bytes == first "
          f"variant whose mnemonic reference-matches, else -224", f"character data <= {L} bytes over [A-Za-z0-9_]",
          cap_s=(900 if L == 6 else 1800), mem_gb=6, unwind=L + 3, sample=False)
    H(f"c20_q_other_{e.lower()}", "C20", f"c20::otherkinds::<c20::{e}, _>", f"{{{d}}}: every non-character element -> -104",
      "6 token kinds, symbolic payloads", cap_s=200, mem_gb=2, unwind=8)
    for vi in range(len(d.split("|"))):
        H(f"c20_q_roundtrip_{e.lower()}_v{vi}", "C20", f"c20::roundtrip::<c20::{e}, {vi}, _>",
          f"{{{d}}}: variant #{vi} ({d.split('|')[vi]}) reports its mnemonic; its response text is character data and "
          f"selects the same variant (from_mnemonic and through the real lexer + TryFrom)", "one variant per instance; "
          "all variants of the family are instantiated", cap_s=300, mem_gb=3, unwind=16,
          also=(["C09"] if (e, vi) in (("E1", 4), ("E4", 2)) else []))


# ---------------------------------------------------------------------------- RL-tok (thorough tier; one at a time)
for L, cap, pull, opt, kind, capS in ((1, 8, 0, "false", "ta", 1800), (3, 8, 0, "false", "r", 7200)):
    H(f"c10_{kind}_rl_flat_l{L}_cap{cap}_p{pull}{'o' if opt == 'true' else 'r'}", "C10", f"rl::flat::<{L}, {cap}, {pull}, {opt}, _>",
      f"ATTEMPT - the real Node::run at token level: every lexable script of exactly {L} tokens (: ? ; separator , A *C "
      f"unknown number chardata lexer-error) on the flat tree {{A, *C}} with logging handlers (symbolic failing call; every "
      f"handler pulls {pull} {'optional' if opt == 'true' else 'required'} parameter(s)), response buffer ArrayVec<u8,{cap}>: "
      f"hook exactly once with the returned error / never on success, no handler after the failing one; for well-formed "
      f"units: designated handler and form, -113, -109, -108, offered parameters, response framing incl. the final NL",
      f"all lexable token scripts of length {L}; flat tree; capacity {cap}", cap_s=capS, mem_gb=45,
      family="p_rl", stubset="tok", unwind=L + 2)

# ---------------------------------------------------------------------------- C01: a representative subset re-run under its id
C01_SET = set(
    [f"c04_q_lex_m0_c0_n{n}" for n in range(0, 5)] + [f"c04_q_lex_m1_c0_n{n}" for n in range(0, 3)]
    + [f"c04_q_lex_m2_c0_n{n}" for n in (1, 2, 3)] + ["c04_q_lex_m3_c0_n1", "c04_t_lex_m3_c0_n2"]
    + ["c04_q_lex_m1_c10_n8", "c04_q_lex_m1_c12_n6", "c04_q_lex_m1_c14_n6", "c04_q_lex_m1_c5_n6",
       "c04_t_lex_m0_c0_n5", "c04_t_lex_m0_c0_n6", "c04_t_lex_m1_c0_n3", "c04_t_lex_m1_c0_n4",
       "c07_q_kernel_u8", "c07_q_kernel_i64", "c07_q_kernel_u64", "c07_q_kernel_isize", "c07_q_nr1_u8_n3", "c07_q_other_u8",
       "c08_q_accept_matrix", "c06_q_params_l2", "c06_t_params_l3",
       "c19_q_chan_step_n3", "c19_q_num_step_n3", "c19_t_chan_step_n8", "c19_t_num_step_n8"]
    + [f"c19_q_spec_iter_n{n}" for n in range(1, 4)] + ["c19_t_spec_iter_n6", "c19_t_spec_iter_n7"])
C14_SET = {"c04_q_lex_m0_c0_n3", "c04_q_lex_m1_c0_n1", "c19_q_num_step_n3", "c07_q_other_u8", "c08_q_accept_matrix",
           "c07_q_kernel_u8", "c07_q_kernel_i16", "c07_q_nondec_i8"}  # value faults must be -222 (execution-error class)
assert C14_SET <= {h["name"] for h in ALL}
for _h in ALL:
    if _h["name"] in C01_SET and "C01" not in _h["also"]:
        _h["also"].append("C01")
    if _h["name"] in C14_SET and "C14" not in _h["also"]:
        _h["also"].append("C14")
assert C01_SET <= {h["name"] for h in ALL}, C01_SET - {h["name"] for h in ALL}

PROPS = {
    "C07": {
        "bounds": {"quick": "fallback kernel: every non-NaN float; fast path: sign + <= 4 digits; non-decimal: any u64; "
                            "character data <= 8 bytes",
                   "thorough": "same, fast path sign + <= 6 digits"},
        "outside": "the literal -> double step of lexical-core (trusted contract; closed concretely by the native replay "
                   "of every counterexample); NR1 literals longer than the stated digit count",
        "assumptions": ["lexical_core::parse::<f32|f64> returns the correctly rounded value of the literal (contract stub)"],
    },
}

PROPS["C07"].update({
    "level_text": "Bounded model checking of the real conversion code: for each of the ten integer targets one SAT query "
                  "ranges over every non-NaN float the literal can denote (2^32 / 2^64 values) and asserts an exact "
                  "integer-arithmetic rounding oracle; further queries cover the NR1 fast path, non-decimal literals "
                  "and character data. This is the right level because the defects live at single values (0.0, the "
                  "bounds +-0.5, 2^63) that sampling does not hit.",
    "level_note": "Trusted: Kani/CBMC/CaDiCaL; lexical-core's float parser returns the correctly rounded value of the "
                  "literal (stubbed by contract under Kani, real in the native replay); bounds on NR1 digit count.",
})

PROPS["C14"] = {
    "bounds": "all 65536 error numbers; all standard variants; library-raised errors: those reachable in the C04/C07/C08/"
              "C19 harnesses (asserted there)",
    "outside": "errors raised by user handlers (not library code)",
    "assumptions": [],
    "level_text": "Bounded model checking, exhaustive over the finite domain: one SAT query per obligation ranges over all "
                  "65536 error numbers (custom and standard) and compares ErrorCode/Error::esr_mask and the derive-"
                  "generated get_code/get_error tables with an independently written IEEE 488.2 class table; the class "
                  "of library-raised errors is asserted inside the lexer/conversion harnesses of C04/C07/C08/C19.",
    "level_note": "Trusted: Kani/CBMC/CaDiCaL; the class table in oracles/esr.rs (transcribed from SCPI-99 21.8); the "
                  "regular expression that lists the variants from error.rs (its count is cross-checked against the "
                  "number of #[error(code..)] attributes).",
}

PROPS["C15"] = {
    "bounds": "one operation from an arbitrary state of both register sets (identity abstraction => histories of any "
              "length); 16-bit arguments unrestricted",
    "outside": "the text->u16 step of ENABle/PTR/NTR parameters (Parameters::next_data is stubbed; decided in C04/C07); "
               "*CLS's effect on the event registers is decided in C16",
    "assumptions": ["Parameters::next_data::<u16> returns the denoted value or a documented error (contract stub)"],
    "level_text": "Bounded model checking as an inductive step: the five registers of each set, the argument and the "
                  "operation are symbolic, so one SAT query covers every reachable and unreachable state and therefore "
                  "every history; the commands are the real handlers called through the public Command trait, their "
                  "responses decoded by an independent NR1 decoder.",
    "level_note": "Trusted: Kani/CBMC/CaDiCaL; the per-bit latch specification in checks/c15.rs; the next_data contract stub.",
}

PROPS["C12"] = {
    "bounds": {"quick": "ArrayErrorQueue capacities 1..4 at every fill level; VecErrorQueue with 0..3 entries",
               "thorough": "capacities 1..6; Vec 0..5 entries"},
    "outside": "capacities > 6, Vec queues longer than 5 (the code is uniform in the capacity); allocation failure of Vec",
    "assumptions": [],
    "level_text": "Bounded model checking as an inductive step over the identity abstraction: queue contents (each entry "
                  "an arbitrary custom/standard error with or without extended text), the operation and its argument "
                  "are symbolic; one SAT query per (capacity, fill level) decides the sequence specification for every "
                  "history leading to that fill level.",
    "level_note": "Trusted: Kani/CBMC/CaDiCaL and Kani's model of Vec/ArrayVec memory; capacities and lengths are "
                  "concrete per instance (stated bound).",
}

PROPS["C16"] = {
    "bounds": "one command from an arbitrary device state (all 8-bit registers, both 5x16-bit register sets, queue with "
              "0/1/2 entries in a capacity-2 queue, message-available flag both ways); identity abstraction => any history",
    "outside": "the text->u8 step of *ESE/*SRE parameters (Parameters::next_data stubbed: any u8 | -109 | -222; the "
               "0..255 acceptance itself is u8::try_from(Token), decided in C07); the register-set summary is taken as "
               "the library documents it (enabled CONDITION bits) - SCPI-99 defines it over the EVENT register, a "
               "divergence the property text does not decide",
    "assumptions": ["Parameters::next_data::<u8> returns the denoted value or a documented error (contract stub)",
                    "device wired as scpi-contrib/examples/minimal_scpi.rs documents (cls -> scpi_cls, stb -> scpi_stb, "
                    "opc -> scpi_opc, handle_error -> push_error)"],
    "level_text": "Bounded model checking as an inductive step: every status register of the documented-wiring device is "
                  "symbolic, the real command handlers are called through the public Command trait, and the post-state "
                  "and decoded response are compared with a bit-by-bit transcription of the 488.2 status model "
                  "including frame conditions (what must not change).",
    "level_note": "Trusted: Kani/CBMC/CaDiCaL; the status-byte specification in checks/c16.rs; the next_data contract stub.",
}

PROPS["C03"] = {
    "bounds": "defined mnemonic 1..12 bytes of shape [A-Z]+[a-z]*[0-9]*, candidate 0..12 bytes over [A-Za-z0-9_]; the "
              "full space the property names",
    "outside": "numeric suffixes spelled with a leading zero on either side (the property does not say whether suffixes "
               "compare as numbers or as text); mnemonics not of SCPI shape; candidates with other bytes (the lexer "
               "never produces them, C04)",
    "assumptions": [],
    "level_text": "Bounded model checking, differential: the real mnemonic_match / mnemonic_compare / "
                  "Token::match_program_header against an independently written reference matcher, with the mnemonic, the "
                  "candidate and both lengths symbolic - one SAT query covers all ~10^40 (mnemonic, candidate) pairs up "
                  "to 12 x 12 bytes, which is exactly the quantifier of the property.",
    "level_note": "Trusted: Kani/CBMC/CaDiCaL; the reference matcher in oracles/mnemonic.rs (unit-tested on the "
                  "repository's own tokenizer test inputs at setup).",
}

PROPS["C17"] = {
    "bounds": "character data of 2,3,4,7 bytes (all keyword lengths: UP, MAX/MIN/DEF, DOWN, MAXIMUM/MINIMUM/DEFAULT) with "
              "every byte value; builder over all values of i32, u8, f32, f64 and uom Time(f32)",
    "outside": "character data of other lengths (no keyword has them; they convert as the underlying type, decided in "
               "C07/C08); underlying types other than the five instantiated",
    "assumptions": [],
    "level_text": "Bounded model checking: the keyword recogniser is decided over all byte strings of each keyword length "
                  "against a reference table, and NumericBuilder::finish over all (variant, value, min, max, default) "
                  "tuples of each instantiated numeric type including NaN and infinities - the boundary and min==max "
                  "cases are points of that space.",
    "level_note": "Trusted: Kani/CBMC/CaDiCaL (incl. CBMC's IEEE-754 comparison semantics); the keyword table in "
                  "checks/c17.rs.",
}

PROPS["C20"] = {
    "bounds": {"quick": "four enum definitions (2-6 variants; unit and single-field variants; plain, suffixed and "
                        "suffix-sibling mnemonics incl. CHANnel1/2/10); character data <= 6 bytes",
               "thorough": "same definitions; character data <= 12 bytes"},
    "outside": "enum definitions other than the four compiled into the harness crate (the derive macro runs at compile "
               "time; its input space is not a solver domain); suffixes spelled with a leading zero (see C03)",
    "assumptions": ["variants carry pairwise non-matching mnemonics (true of the four definitions)"],
    "level_text": "Bounded model checking of the code the derive macro actually emitted for a fixed family of definitions: "
                  "the character datum (and its length) is symbolic, the oracle is 'first variant whose mnemonic matches "
                  "the C03 reference matcher'; the response round trip is decided for every variant through the real "
                  "formatter, the real lexer and the derived TryFrom.",
    "level_note": "Trusted: Kani/CBMC/CaDiCaL; reference matcher (oracles/mnemonic.rs); the family of definitions is the "
                  "bound on 'programs'.",
}

PROPS["C13"] = {
    "bounds": "one step from an arbitrary documented-wiring device: handle_error with 0..2 of 2 slots used; :COUN? for any "
              "reported queue length < 100000; SYST:ERR? with 0..1 items (2..3 in the thorough tier) / "
              ":COUN? with 0..3 items, :ALL? with 0..1 items (2 and 3 are thorough-tier attempts: the drain loop over a "
              "symbolic-length ArrayVec did not finish symbolic execution in 15 min); *ESR? (c16_q_esr); *OPC (c16_q_opc_*); "
              "error numbers unrestricted",
    "outside": "the wiring run -> handle_error (exactly once, with exactly the returned error) is C05's token-level "
               "obligation; queued items are custom errors with a fixed message text (formatting of arbitrary Error items "
               "is C09's subject); queues longer than 3",
    "assumptions": ["device wired as scpi-contrib/examples/minimal_scpi.rs documents",
                    "a message that succeeds runs only handlers: the frame conditions of the contrib handlers (C15, C16) "
                    "show they neither queue nor flag anything except *OPC"],
    "level_text": "Bounded model checking as inductive steps from an arbitrary device: the error-hook step (ESR class bit + "
                  "exactly one queue append) and each error-queue query (real handlers through the public Command trait; "
                  "response bytes decoded by an independent code,\"message\" decoder; post-state compared item by item).",
    "level_note": "Trusted: Kani/CBMC/CaDiCaL; ESR class table; the decoder in checks/c13.rs; queue length concrete per "
                  "instance.",
}

PROPS["C18"] = {
    "bounds": {"quick": "all 14 quantities; suffix 1..6 symbolic bytes (covers every documented suffix) "
                        "with the number fixed to 1.5 (which unit a suffix selects); bare numbers: "
                        "any f32 with |v| in [1e-15,1e15] or 0",
               "thorough": "suffix 1..12 bytes, and per documented suffix every moderate f32 (scaling arithmetic), each "
                           "attempted under a 1 h cap and reported as not reached otherwise"},
    "outside": "scaling of numbers other than 1.5 by a suffixed unit is uom's linear arithmetic: measured - the f32-vs-"
               "f64 tolerance query does not finish in 10 min even for the two ratio suffixes, so it is an attempt in the "
               "thorough tier only; the literal -> f32 step (lexical-core, stubbed); numbers outside 1e-15..1e15 (f32 overflow/underflow of the "
               "scaled value); the magnitude of ANN (SCPI does not fix the year); decibel/amplitude wrappers of quantities "
               "other than electric potential",
    "assumptions": ["lexical_core::parse::<f32> returns the correctly rounded value of the literal (contract stub)",
                    "scaling is compared with a relative tolerance of 2e-6 (uom computes in f32)"],
    "level_text": "Bounded model checking against an independent transcription of SCPI-99 tables 7-1/7-2: suffix bytes, "
                  "suffix length and the number are symbolic, so every case variant and every near miss of every suffix is "
                  "inside one query per quantity; accepted => SCPI reading and scaled value, documented => accepted.",
    "level_note": "Trusted: Kani/CBMC/CaDiCaL incl. CBMC's IEEE-754 arithmetic; oracles/units.rs (unit-tested at setup); "
                  "uom's own arithmetic is part of the code under test.",
}

PROPS["C04"] = {
    "bounds": {"quick": "one lexer step from each of the four lexer states on a remaining input of exactly N bytes: all "
                        "bytes symbolic for N = 0..4 (header), 0..2 (data), 1..3 / 1..2 (common-command states); with the "
                        "first byte(s) fixed to one representative per lexical class: N up to 14 (12/13-character "
                        "mnemonic, character data and suffix boundaries, #2 block header, strings, expressions)",
               "thorough": "all bytes symbolic up to N = 6 (header) / 4 (data; 5 attempted); class instances up to N = 25 "
                           "(64-bit overflow of #H/#Q literals, #9 block header, 10-byte block payloads)"},
    "outside": "remaining inputs longer than the stated N; the composition of steps into a whole message (each step starts "
               "from an ARBITRARY state, so every position of every message whose remaining length is within N is "
               "covered, but sequences are not re-run end to end); where IEEE 488.2 or the property text does not decide "
               "(control characters as white space, NL followed by further input, leading white space before a header, "
               "a 12-character common command mnemonic, `*` in the data part, exponent/suffix ambiguity of `1E..`) the "
               "reference says 'no requirement'",
    "assumptions": ["the lexer state is exactly (remaining bytes, in_header, in_common): the harness installs an arbitrary "
                    "remaining input through the public `chars` field after reaching the flag combination with a concrete "
                    "prefix, and reads the flags back through concrete one-byte probes"],
    "level_text": "Bounded model checking, differential: one step of the real Tokenizer (real lexical-core integer "
                  "parsing inside) against a 350-line reference lexer step written from IEEE 488.2 section 7, from an "
                  "arbitrary lexer state, with the remaining bytes symbolic; equality of element type, exact payload byte "
                  "range (offset and length into the input), cursor, mode afterwards and non-decimal value, and a command "
                  "error wherever the reference finds one of the listed syntax violations.",
    "level_note": "Trusted: Kani/CBMC/CaDiCaL; the reference step in oracles/lexer.rs (unit-tested at setup); concrete "
                  "length per instance; class-representative first bytes for the long instances (sanctioned by the "
                  "property's own quantifier).",
}

PROPS["C19"] = {
    "bounds": {"quick": "one iteration step from an arbitrary (remaining bytes, first flag) state with 0..6 remaining bytes "
                        "of any value; channel spec texts of 1..5 bytes over [0-9+-!] (iteration, values, tuple conversions)",
               "thorough": "steps up to 8 remaining bytes; spec texts up to 7 bytes"},
    "outside": "remaining expressions longer than the bound; numbers beyond isize (need > 18 digits); malformations the "
               "property does not list (trailing comma, `1:`, `1!`, sign/dot without digits, white space, path name glued "
               "to other text) carry no requirement in the reference; module channels (unimplemented in the library)",
    "assumptions": ["the iterator state is exactly (remaining bytes, first flag) - both are public fields, so an arbitrary "
                    "state is installed directly"],
    "level_text": "Bounded model checking, differential against a reference parser of the SCPI-99 8.3 list grammar, one "
                  "iteration step from an arbitrary iterator state with the remaining bytes symbolic (so every position of "
                  "every list whose remainder fits the bound is covered), plus value/tuple obligations on well-formed "
                  "specs; Kani's panic/overflow checks make the same queries decide C01's totality for these iterators.",
    "level_note": "Trusted: Kani/CBMC/CaDiCaL; oracles/lists.rs (unit-tested on the repository's own list test inputs); "
                  "real lexical-core integer parsing inside.",
}

PROPS["C08"] = {
    "bounds": "float conversion: every f32/f64 the parser can return and every parser error kind; keywords: all byte "
              "strings of 1..9 bytes; bool: all byte strings of 1..4 bytes and every non-NaN f64 (c07_q_bool_numeric); "
              "accept matrix: all (target, element type) pairs with 3 symbolic payload bytes",
    "outside": "NOT APPLICABLE PART: correct rounding of decimal literals (ties, 17+ digits, subnormals, huge exponents) "
               "is lexical-core's float parser - measured: the real parser on the 3-byte symbolic literal d.d exceeds 9 GB "
               "without finishing - so it is a trusted contract here; what is decided is that scpi-rs returns exactly what "
               "that parser returns; integer targets are C07; unit quantities C18; enums C20",
    "assumptions": ["lexical_core::parse::<f32|f64> returns the correctly rounded value of the literal (contract stub)"],
    "level_text": "Bounded model checking of scpi-rs's own conversion logic around the float parser: the parser's result "
                  "(any float bit pattern, any error kind) is symbolic and must be handed on unchanged; keyword and ON/OFF "
                  "recognition is decided over all byte strings of each relevant length against reference tables; the "
                  "accept matrix enumerates every (target, element type) pair with symbolic payloads.",
    "level_note": "Trusted: Kani/CBMC/CaDiCaL; lexical-core's float parser (stubbed by contract; the literal->float "
                  "rounding half of C08 is not claimed); keyword tables in checks/c08.rs.",
}

PROPS["C09"] = {
    "bounds": {"quick": "all ten integer types in decimal (8/16-bit: every value; 32/64-bit: |v| < 10^5; within 10^5 of "
                        "MIN/MAX in the thorough tier) and in #H (every non-negative value of the 8/16-bit and the unsigned "
                        "32/64-bit types; #Q/#B for 8/16-bit); bool; NaN/infinity sentinels; ASCII strings of 0..2 bytes "
                        "through the independent decoder (0..1 bytes through the own parser); blocks of 0,1,5,9,10,12 bytes; "
                        "character data 1,3,6,12 bytes; expressions 0,1,3,6 bytes; lists of 0..1 u16; custom error items "
                        "with an empty message (any number; 1-3 byte messages in the thorough tier) and the plainness of "
                        "all standard messages; enum variants (C20 family)",
               "thorough": "strings up to 4 bytes (5,6 attempted); lists of 2 (3 attempted); error items with 2-3 byte "
                           "messages and with extended text; #Q/#B and the full decimal range of 32/64-bit integers "
                           "attempted under a 1 h cap each"},
    "outside": "NOT APPLICABLE PART: finite floats bit-for-bit (lexical-core's shortest-round-trip printer; its parser "
               "counterpart does not fit the solver even for 3-byte literals); the full 32/64-bit decimal range (rule 3 of "
               "DESIGN.md: a multiplicative decoder over 64 bits does not finish); own-parser round trip of integers, "
               "booleans and character data is by composition (the decoder accepts only well-formed <NR1>/#H../character "
               "data, C04 decides how the lexer reads such text, C07 its value) and is re-run end to end only for strings, "
               "blocks and expressions, whose response has a concrete length and dispatch byte",
    "assumptions": ["<[u8]>::is_ascii is the byte loop of its documentation (stub; core's word-at-a-time version is "
                    "intractable for CBMC)"],
    "level_text": "Bounded model checking of the real formatters with the value symbolic: the emitted bytes are decoded by "
                  "independent decoders (NR1, shift-based #H/#Q/#B, un-doubling string decoder, block header) and, for "
                  "strings, blocks and expressions, re-lexed by the library's own Tokenizer + TryFrom; one known finding "
                  "(F14, own parser returns strings with quotes still doubled) is kept as a witness harness.",
    "level_note": "Trusted: Kani/CBMC/CaDiCaL; the decoders in checks/c09.rs; lexical-core's integer writer is real code "
                  "under test; the float printer is outside the claim.",
}

PROPS["C10"] = {
    "bounds": {"quick": "K-fmt: all scripts of <= 2 response units (3 in the thorough tier), each with no / one-level / "
                        "two-level header and 1..3 data elements (bool, character data, a block ending in ';'), on the "
                        "ArrayVec formatter",
               "thorough": "plus the dispatcher's two loop exits at token level (RL-tok family): every lexable 3-token "
                           "script on a flat tree - message_end exactly once iff some query produced output"},
    "outside": "queries that produce no output at all (the quantifier says 1..n data elements); data element formatting "
               "itself (C09); scripts longer than the bound; whole-message runs at byte level (not encodable, DESIGN.md 3) "
               "- the dispatcher part is decided at token level in the thorough tier only",
    "assumptions": ["the unit loop of run_tokens drives the formatter exactly as the K-fmt script does (message_start, "
                    "response_unit per query, message_end iff non-empty); that wiring is the RL-tok obligation"],
    "level_text": "Bounded model checking of the real framing code (Formatter impl + ResponseUnit) under a symbolic script "
                  "of units/headers/data against a reference framer, byte for byte; the dispatcher's exits (where the "
                  "trailing-semicolon defect lived) are decided by the token-level run harnesses in the thorough tier.",
    "level_note": "Trusted: Kani/CBMC/CaDiCaL; the reference framer in checks/c10.rs; token-level abstraction of the "
                  "lexer for the dispatcher part (composition with C04).",
}
PROPS["C11"] = {
    "bounds": {"quick": "Formatter for ArrayVec<u8,CAP>, CAP = 0..8, all scripts of 4 primitive writes; every ResponseData "
                        "impl (u16, i32, Hex<u16>, bool, string, block, character, expression, list, enum) under every "
                        "write budget 0..48; a two-element response unit at capacities 0,1,3,6,7",
               "thorough": "plus Error items under a budget; message-level exhaustion through the dispatcher at token "
                           "level (RL-tok with small capacities)"},
    "outside": "capacities > 8 at Formatter level (the code is uniform in CAP); whole-message runs at byte level; the "
               "allocation claim is a BUILD-TIME fact, not a solver verdict: these harnesses are compiled against scpi "
               "with neither the alloc nor the std feature, a configuration in which scpi/src/lib.rs has no `extern crate "
               "alloc`, so no allocating API is nameable on any explored path",
    "assumptions": ["(a) + (b) compose: fits => identical bytes, does not fit => -225 at the first overflowing write, for "
                    "any sequence of elements, because every element returns exactly the formatter's first error and "
                    "writes nothing after it"],
    "level_text": "Bounded model checking at two levels: the fixed-capacity Formatter implementation against a reference "
                  "byte vector for every capacity 0..8 and every 4-write script (no write beyond capacity, atomic failure "
                  "with -225), and every ResponseData implementation against a formatter with a symbolic byte budget "
                  "(returns the formatter's first error, stops writing).",
    "level_note": "Trusted: Kani/CBMC/CaDiCaL; Kani's model of ArrayVec's MaybeUninit storage; the no-alloc build "
                  "configuration of the harness crate for these harnesses.",
}

PROPS["C06"] = {
    "bounds": {"quick": "Parameters kernel: every lexable token stream of 0..2 tokens after a header (3..4 in the thorough "
                        "tier), every usage script of 3 required/optional calls",
               "thorough": "plus the dispatcher at token level (RL-tok): handlers pulling 0..2 required/optional "
                           "parameters on every lexable 1..3-token script (4 attempted) - offered tokens, -109, -108 before "
                           "the next unit starts"},
    "outside": "the post-handler -108 check lives in run_tokens and is decided only at token level in the thorough tier; "
               "data element CONTENT is represented by its kind (number / character data): that the token payload is the "
               "unmodified input bytes is C04's exact-byte-range obligation; more than 4 tokens per unit; leading comma "
               "`A ,1` (accepted by the library as `A 1`; malformed input, outside C06's quantifier)",
    "assumptions": ["token streams are restricted to sequences the real lexer can emit (token-successor automaton, decided "
                    "on the real lexer by C04); the native replay spells the script out and lexes it with the real lexer"],
    "level_text": "Bounded model checking of the real Parameters iterator over a symbolic token stream and a symbolic "
                  "usage script against a cursor reference; the dispatcher-side arity check is decided by the token-level "
                  "run harnesses (thorough).",
    "level_note": "Trusted: Kani/CBMC/CaDiCaL; the token-script stub of <Tokenizer as Iterator>::next and the `lexable` "
                  "automaton (checks/rl.rs).",
}

PROPS["C01"] = {
    "bounds": {"quick": "the lexer from every lexer state on every remaining input of <= 4 (header) / <= 2 (data) bytes and "
                        "on class-representative inputs up to 14 bytes; every integer conversion kernel over all floats "
                        "(the to_int_unchecked site), NR1, other element kinds; the (target, element type) accept matrix "
                        "(all parser_unreachable! sites); Parameters over every lexable 2-3 token stream; channel-list and "
                        "numeric-list steps on <= 6 bytes, channel-spec iteration on every spec text of <= 5 bytes",
               "thorough": "lexer up to 6 / 4 bytes fully symbolic; list steps up to 8 bytes; spec texts up to 7 bytes; the "
                           "dispatcher at token level (RL-tok) with Kani's panic / overflow / bounds checks on"},
    "outside": "byte-level whole-message runs through Node::run are NOT encodable within reach (DESIGN.md section 3: the "
               "`sub: &[Node]` slice read out of a Node::Branch is a non-constant term under Kani's enum encoding; 2-token "
               "concrete messages do not finish in 25 min): the dispatcher is covered at token level only, on a flat tree, "
               "in the thorough tier; inputs longer than the bounds; the release-profile behaviour is covered by the native "
               "replay of counterexamples only (Kani analyses the dev profile: overflow checks and debug assertions on, so "
               "every release-only wrap is a dev-profile panic and is reported)",
    "assumptions": ["termination: every lexer / iterator step is shown to consume at least one byte or to end the run "
                    "(progress measure) and all unwinding assertions pass, so runs over a finite input terminate"],
    "level_text": "Bounded model checking with Kani's built-in checks (arithmetic overflow, slice/array bounds, unwrap on "
                  "None, unreachable!/panic!, pointer validity, float-to-int range) proved unreachable in the real lexer, "
                  "conversions, Parameters and list iterators over symbolic inputs, plus an explicit progress measure; the "
                  "same harnesses as C04/C06/C07/C08/C19 (a representative subset is re-run under this id).",
    "level_note": "Trusted: Kani/CBMC/CaDiCaL; the harnesses' bounds; float parsing stubbed by contract so that the integer "
                  "fallback is entered with every possible float.",
}

PROPS["C02"] = {"not_applicable": "header path resolution lives entirely in the recursive dispatcher Node::exec, which solver-based "
                 "checking of the real code cannot reach here: byte-level runs do not finish symbolic execution even for "
                 "concrete 2-token messages (the `sub: &[Node]` slice read out of a Node::Branch is a non-constant term "
                 "under Kani's enum encoding), and the token-level family (harness/src/checks/rl.rs) did not finish its "
                 "1-token flat-tree instance in 40 min / 30 GB, while C02 needs a two-level tree with a default branch and "
                 ">= 3 tokens; the only separable piece, Token::match_program_header, is decided under C03 (DESIGN.md 3, 7)"}
PROPS["C05"] = {"not_applicable": "order of units, abort at the first error and 'error hook exactly once' are properties of the "
                 "dispatcher loop (Node::run / run_tokens / exec), not encodable within reach (same measurements as C02; "
                 "the token-level harnesses exist as thorough-tier attempts and replay natively, but no instance finished "
                 "under the caps); the one public-API fragment - ResponseUnit latches the first formatting error and "
                 "finish returns it - is decided by c11_q_unit_cap* and reported under C11 (DESIGN.md 3, 7)"}

# properties whose check is still being built (kept current as the work proceeds)
NOT_YET = {}
